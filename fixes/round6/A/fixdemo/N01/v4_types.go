package main

import (
	"errors"
	"fmt"
	"strings"
)

type B bool

type T struct {
	name string
	ok   bool
}

func (t T) Ok() bool { return t.ok }

var errA = errors.New("a")

func f(s string, v interface{}, t *T, err error) string {
	switch {
	case strings.HasPrefix(s, "x"), strings.HasSuffix(s, "y"):
		return "xy"
	case v == nil, v == 1:
		return "nil-or-1"
	case t != nil && t.Ok(), t != nil && t.name == "n":
		return "t"
	case errors.Is(err, errA), err != nil && err.Error() == "b":
		return "err"
	}
	return "other"
}

func g(b B, c bool) string {
	switch {
	case b == true, c:
		return "b-or-c"
	}
	return "neither"
}

func h(m map[string]bool, ch chan bool) string {
	switch {
	case m["a"], m["b"]:
		return "map"
	case <-ch, <-ch:
		return "chan"
	}
	return "none"
}

func closure() string {
	x := 3
	fn := func() string {
		switch {
		case x == 1, x == 2:
			return "low"
		case x == 3, x == 4:
			x++
			return "mid"
		}
		return "high"
	}
	return fn() + fn() + fn()
}

func main() {
	fmt.Println(f("xa", 2, nil, nil), f("ay", 2, nil, nil), f("a", nil, nil, nil), f("a", 1, nil, nil))
	fmt.Println(f("a", 2, &T{ok: true}, nil), f("a", 2, &T{name: "n"}, nil), f("a", 2, &T{}, nil))
	fmt.Println(f("a", 2, nil, errA), f("a", 2, nil, errors.New("b")), f("a", 2, nil, errors.New("c")))
	fmt.Println(g(true, false), g(false, true), g(false, false))
	ch := make(chan bool, 4)
	ch <- false
	ch <- true
	fmt.Println(h(map[string]bool{"b": true}, ch), h(map[string]bool{}, ch), len(ch))
	ch <- false
	ch <- false
	fmt.Println(h(nil, ch), len(ch))
	fmt.Println(closure())
}
