package main

import "fmt"

func nested(x, y int) string {
	switch {
	case x < 0, y < 0:
		switch {
		case x < 0 && y < 0, x == -100:
			return "both-neg"
		case x < 0, false:
			return "x-neg"
		default:
			return "y-neg"
		}
	case x == 0, y == 0:
		switch x + y {
		case 0, 1:
			return "zero-small"
		default:
			switch {
			case x > 5, y > 5:
				return "zero-big"
			}
			return "zero-mid"
		}
	}
	return "pos"
}

func loops() {
	var out []string
outer:
	for i := 0; i < 12; i++ {
		switch {
		case i == 1, i == 3:
			continue
		case i == 5, i == 6:
			out = append(out, "brk")
			break
		case i == 8:
			continue outer
		case i == 10, i > 100:
			break outer
		default:
			out = append(out, fmt.Sprint("d", i))
		}
		out = append(out, fmt.Sprint("e", i))
	}
	fmt.Println(out)

	// Switch as the only loop body statement, with a break inside an if.
	n := 0
	for i := 0; i < 6; i++ {
		switch {
		case i%2 == 0, i == 5:
			if i == 4 {
				break
			}
			n += i
		}
	}
	fmt.Println(n)

	for _, s := range []string{"a", "bb", "", "dddd"} {
		switch l := len(s); {
		case l == 0, l == 4:
			fmt.Println("edge", s)
		case s == "a", s == "b":
			fmt.Println("letter", s)
		default:
			fmt.Println("else", s)
		}
	}
}

func main() {
	for _, p := range [][2]int{{-1, -1}, {-1, 1}, {1, -1}, {0, 0}, {0, 1}, {0, 3}, {0, 9}, {7, 0}, {2, 2}, {-100, 3}} {
		fmt.Println(p, nested(p[0], p[1]))
	}
	loops()
}
