package main

import "fmt"

func get(n int) int { return n * 2 }

// init statement, fallthrough into and out of a multi-condition clause, default in various positions.
func a(n int) (r []string) {
	switch m := get(n); {
	case m == 0:
		r = append(r, "zero")
		fallthrough
	case m == 2, m == 4:
		r = append(r, "two-or-four")
		fallthrough
	case m == 100, m == 200, m == 6:
		r = append(r, "hundreds-or-six")
	case m == 8, m == 10:
		r = append(r, "eight-or-ten")
	default:
		r = append(r, "default")
	}
	return r
}

func b(n int) string {
	switch {
	default:
		return "default-first"
	case n == 1, n == 2:
		return "one-two"
	case n == 3, n == 4:
		return "three-four"
	}
}

func c(n int) string {
	switch {
	case n == 1, n == 2:
		return "one-two"
	default:
		return "default-middle"
	case n == 3, n == 4, n == 5:
		return "three-four-five"
	}
}

func d(n int) (r string) {
	switch {
	case n == 1, n == 2:
		r += "A"
		fallthrough
	default:
		r += "D"
		fallthrough
	case n == 3, n == 4:
		r += "B"
	}
	return r
}

// default with an empty body, clauses with empty bodies.
func e(n int) (r string) {
	r = "none"
	switch {
	case n == 1, n == 2:
	default:
	case n == 3, n == 4:
		r = "B"
	}
	return r
}

func main() {
	for n := -1; n < 8; n++ {
		fmt.Println(n, a(n), b(n), c(n), d(n), e(n))
	}
}
