package main

import "fmt"

// Programs that worked before and must keep working: single conditions, tagged switches with lists,
// type switches with lists, empty switches.
func single(n int) string {
	switch {
	case n < 0:
		return "neg"
	case n == 0:
		return "zero"
	default:
		return "pos"
	}
}

func tagged(n int) string {
	switch n {
	case 0, 1:
		return "small"
	case 7, 8, 9:
		return "mid"
	}
	return "other"
}

func typed(v interface{}) string {
	switch x := v.(type) {
	case int, int8:
		return fmt.Sprint("int", x)
	case string, nil:
		return fmt.Sprint("str", x)
	}
	return "other"
}

func empty(n int) string {
	switch {
	}
	switch n++; {
	default:
	}
	switch {
	default:
	}
	switch {
	case n == 1:
	}
	switch {
	case n == 1, n == 2:
	}
	return fmt.Sprint(n)
}

func onlyDefault() string {
	switch {
	default:
		return "d"
	}
}

func constOnly() string {
	switch {
	case false:
		return "f"
	case true:
		return "t"
	}
	return "none"
}

func ft(n int) (r string) {
	switch {
	case n == 0:
		r += "0"
		fallthrough
	case n == 1:
		r += "1"
		fallthrough
	default:
		r += "d"
	}
	return
}

func main() {
	for n := -1; n < 10; n++ {
		fmt.Println(n, single(n), tagged(n), empty(n), ft(n))
	}
	fmt.Println(typed(1), typed(int8(2)), typed("s"), typed(nil), typed(1.5))
	fmt.Println(onlyDefault(), constOnly())
}
