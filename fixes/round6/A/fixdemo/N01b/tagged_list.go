package main

import "fmt"

func id(i int) int { return i }

type P struct{ x, y int }

func tagged(x, a int) string {
	switch x {
	case a + 1, a + 2:
		return "a+1|a+2"
	case 0, a * 3, id(a) * 4:
		return "0|3a|4a"
	case 100, 200:
		return "const"
	}
	return "other"
}

func taggedTrue(n int) string {
	switch true {
	case n == 0, n == 1:
		return "small"
	case n == 7:
		return "seven"
	case n > 10, n < -10, n == 8:
		return "big-or-8"
	}
	return "other"
}

func strs(s, p string) string {
	switch s {
	case p + "a", p + "b", "lit":
		return "hit"
	default:
		return "miss"
	case "", p:
		return "empty-or-p"
	}
}

func withInitAndFallthrough(n int) (r string) {
	switch m := n * 2; m {
	case id(0), id(2):
		r += "A"
		fallthrough
	case id(100), id(4):
		r += "B"
	default:
		r += "D"
		fallthrough
	case id(8), id(10):
		r += "C"
	}
	return r
}

func main() {
	for _, x := range []int{0, 11, 12, 13, 30, 40, 100, 200, 7} {
		fmt.Println(x, tagged(x, 10))
	}
	for _, n := range []int{0, 1, 7, 8, 11, -11, 5} {
		fmt.Println(n, taggedTrue(n))
	}
	fmt.Println(strs("xa", "x"), strs("xb", "x"), strs("lit", "x"), strs("", "x"), strs("x", "x"), strs("q", "x"))
	for n := 0; n < 7; n++ {
		fmt.Println(n, withInitAndFallthrough(n))
	}
	for i := 0; i < 6; i++ {
		switch i {
		case id(1), id(3):
			continue
		case id(4), id(99):
			break
		default:
			fmt.Println("loop", i)
		}
	}
}
