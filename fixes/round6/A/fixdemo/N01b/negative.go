package main

import "fmt"

type K int

const (
	K0 K = iota
	K1
	K2
	K3
)

func consts(k K) string {
	switch k {
	case K0, K1:
		return "01"
	case K2:
		return "2"
	default:
		return "d"
	}
}

func single(n int, a int) string {
	switch n {
	case a:
		return "a"
	case a + 1:
		return "a+1"
	}
	return "other"
}

func typed(v interface{}) string {
	switch x := v.(type) {
	case int, int8, []int, map[string]int:
		return fmt.Sprintf("multi %v", x)
	case string:
		return "str " + x
	case nil, error:
		return "nil-or-error"
	case func() int, *int:
		return "func-or-ptr"
	}
	return "other"
}

func typedNoAssign(v interface{}) string {
	switch v.(type) {
	case int, []string:
		return "a"
	case struct{}, [2]int:
		return "b"
	default:
		return "d"
	}
}

func runes(r rune) string {
	switch r {
	case 'a', 'e', 'i', 'o', 'u':
		return "vowel"
	case ' ', '\t', '\n':
		return "space"
	}
	return "cons"
}

func main() {
	fmt.Println(consts(K0), consts(K1), consts(K2), consts(K3))
	fmt.Println(single(1, 1), single(2, 1), single(3, 1))
	i := 1
	fmt.Println(typed(1), typed(int8(2)), typed([]int{1}), typed(map[string]int{"a": 1}), typed("s"), typed(nil), typed(&i), typed(func() int { return 1 }), typed(1.5))
	fmt.Println(typedNoAssign(1), typedNoAssign([]string{}), typedNoAssign([2]int{}), typedNoAssign(""))
	for _, r := range "a b\tz" {
		fmt.Println(runes(r))
	}
}
