package main

import "fmt"

type Shape interface {
	Area() int
}

type Named interface {
	Shape
	Name() string
}

type Sq int

func (s Sq) Area() int    { return int(s * s) }
func (s Sq) Name() string { return "sq" }

type Rect struct{ w, h int }

func (r *Rect) Area() int { return r.w * r.h }

func mk() (a, b Shape) {
	a, b = Sq(2), &Rect{2, 3}
	return
}

func mk2() (a Shape, b Named) {
	var n Named = Sq(3)
	a, b = n, n // interface to wider interface
	return
}

func mk3() (a, b Shape, c interface{}) {
	defer func() { a, b = b, a }()
	a, b, c = Sq(1), Sq(2), Sq(3)
	return
}

func main() {
	a, b := mk()
	fmt.Println(a.Area(), b.Area())
	c, d := mk2()
	fmt.Println(c.Area(), d.Area(), d.Name())
	e, f, g := mk3()
	fmt.Println(e.Area(), f.Area(), g.(Sq).Area())
	var s Shape
	var n Named
	s, n = Sq(4), Sq(5)
	fmt.Println(s.Area(), n.Name(), n.Area())
	s, n = n, nil
	fmt.Println(s.Area(), n == nil)
	shapes := []Shape{nil, nil}
	shapes[0], shapes[1] = &Rect{1, 1}, Sq(6)
	fmt.Println(shapes[0].Area(), shapes[1].Area())
	m := map[string]Shape{}
	m["a"], m["b"] = Sq(7), &Rect{7, 1}
	fmt.Println(m["a"].Area(), m["b"].Area(), len(m))
}
