package main

import (
	"errors"
	"fmt"
	"io"
	"strings"
)

type A string

func (a A) String() string { return "A:" + string(a) }

type E struct{ code int }

func (e *E) Error() string { return fmt.Sprint("E", e.code) }

type R struct{ s string }

func (r R) Read(p []byte) (int, error) { return copy(p, r.s), io.EOF }

func f() (a, b fmt.Stringer) { a, b = A("a"), A("b"); return }

func g() (n int, err error) { n, err = 3, &E{4}; return }

func h() (e1, e2 error) {
	e1, e2 = &E{1}, errors.New("plain")
	return
}

func k() (r io.Reader, s fmt.Stringer, v interface{}) {
	r, s, v = R{"data"}, A("k"), A("v")
	return
}

func l() (r io.Reader, err error) {
	r, err = strings.NewReader("host"), nil
	return
}

func main() {
	a, b := f()
	fmt.Println(a, b, a.String(), b.String())
	fmt.Println(g())
	fmt.Println(h())
	r, s, v := k()
	buf := make([]byte, 8)
	n, _ := r.Read(buf)
	fmt.Println(string(buf[:n]), s, v)
	r, err := l()
	n, _ = r.Read(buf)
	fmt.Println(string(buf[:n]), err)

	// local variables, not named results
	var s1, s2 fmt.Stringer
	s1, s2 = A("l1"), A("l2")
	fmt.Println(s1, s2)
	var e1 error
	var i1 interface{}
	e1, i1, s1 = &E{7}, A("i"), s2
	fmt.Println(e1, i1, s1)

	// struct fields, slice elements, map entries of bin interface type
	type W struct {
		S fmt.Stringer
		E error
	}
	w := W{}
	w.S, w.E = A("ws"), &E{8}
	fmt.Println(w.S, w.E)
	ls := make([]fmt.Stringer, 2)
	ls[0], ls[1] = A("0"), A("1")
	ls[0], ls[1] = ls[1], ls[0]
	fmt.Println(ls)
	ms := map[string]fmt.Stringer{}
	ms["x"], ms["y"] = A("mx"), A("my")
	fmt.Println(ms)
	me := map[int]error{}
	me[1], me[2] = &E{1}, nil
	fmt.Println(me)
}
