package main

import "fmt"

type A string

func (a A) String() string { return "A:" + string(a) }

func f() (a, b fmt.Stringer) { a, b = A("a"), A("b"); return }

func main() {
	a, b := f()
	fmt.Println(a, b)
	fmt.Println(a.String(), b.String())
}
