package main

import "fmt"

func f() (int, int) { return 1, 2 }

type T struct{ m map[string]int }

func main() {
	defer func() { fmt.Println("recovered:", recover() != nil) }()
	t := T{m: map[string]int{}}
	pt := &t
	pt.m["a"], pt.m["b"] = f()
	fmt.Println(t)
	var arr [2]map[int]int
	arr[0] = map[int]int{}
	for i := 0; i < 2; i++ {
		fmt.Println("round", i)
		arr[i][i], arr[0][10+i] = f() // second round: assignment to entry in nil map
		fmt.Println(arr)
	}
}
