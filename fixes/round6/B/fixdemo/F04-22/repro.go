package main

import "fmt"

func f() (int, int) { return 1, 2 }

func main() {
	mp := map[string]int{}
	mp["a"], mp["b"] = f()
	fmt.Println(mp)
	var x int
	x, mp["c"] = f()
	fmt.Println(x, mp)
}
