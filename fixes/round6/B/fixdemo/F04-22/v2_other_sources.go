package main

import "fmt"

func main() {
	mp := map[string]int{}
	mb := map[string]bool{}
	src := map[int]int{1: 10}

	// map index with status
	mp["b"], mb["b"] = src[1]
	fmt.Println(mp, mb)
	mp["b"], mb["b"] = src[2]
	fmt.Println(mp, mb)
	var ok bool
	mp["x"], ok = src[1]
	fmt.Println(mp, ok)
	var n int
	n, mb["n"] = src[1]
	fmt.Println(n, mb)
	mp["self"] = 3
	mp["self"], mb["self"] = mp["self"]
	fmt.Println(mp["self"], mb["self"])

	// type assertion with status
	var i interface{} = 7
	mp["c"], mb["c"] = i.(int)
	fmt.Println(mp, mb)
	ms := map[string]string{}
	ms["c"], mb["s"] = i.(string)
	fmt.Println(ms, mb["s"])
	_, mb["t"] = i.(int)
	fmt.Println(mb["t"])
	mst := map[int]fmt.Stringer{}
	mst[0], mb["st"] = i.(fmt.Stringer)
	fmt.Println(mst, mb["st"])

	// receive with status
	ch := make(chan int, 2)
	ch <- 5
	mp["d"], mb["d"] = <-ch
	fmt.Println(mp["d"], mb["d"])
	close(ch)
	mp["d"], mb["d"] = <-ch
	fmt.Println(mp["d"], mb["d"])
	_, mb["e"] = <-ch
	fmt.Println(mb["e"])

	// receive in select
	c2 := make(chan int, 3)
	c2 <- 8
	c2 <- 9
	select {
	case mp["s"], mb["sel"] = <-c2:
		fmt.Println("recv", mp["s"], mb["sel"])
	}
	select {
	case mp["s1"] = <-c2:
		fmt.Println("recv", mp["s1"])
	default:
		fmt.Println("default")
	}
	close(c2)
	select {
	case n, mb["closed"] = <-c2:
		fmt.Println("recv", n, mb["closed"], len(mb))
	}
}
