package main

import (
	"fmt"
	"strconv"
)

type P struct{ x, y int }

type I interface{ M() int }

type A int

func (a A) M() int { return int(a) }

func f() (int, int)         { return 1, 2 }
func g() (I, error)         { return A(3), nil }
func h() (interface{}, P)   { return "h", P{1, 2} }
func fn() (func() int, int) { return func() int { return 42 }, 1 }

var ga, gb int

func named() (a, b int) {
	a, b = f()
	b, a = f()
	return
}

func main() {
	// non map destinations of a multi-valued expression
	var a, b int
	a, b = f()
	fmt.Println(a, b)
	s := make([]int, 3)
	s[0], s[2] = f()
	fmt.Println(s)
	ar := [2]int{}
	ar[1], ar[0] = f()
	fmt.Println(ar)
	p := P{}
	p.x, p.y = f()
	fmt.Println(p)
	pp := &P{}
	pp.y, pp.x = f()
	fmt.Println(*pp)
	pi := new(int)
	*pi, a = f()
	fmt.Println(*pi, a)
	ga, gb = f()
	fmt.Println(ga, gb)
	fmt.Println(named())
	var i I
	var err error
	i, err = g()
	fmt.Println(i.M(), err)
	var e interface{}
	e, p = h()
	fmt.Println(e, p)
	var fv func() int
	fv, a = fn()
	fmt.Println(fv(), a)
	_, b = f()
	a, _ = f()
	fmt.Println(a, b)
	func() { a, b = f(); b, a = f() }()
	fmt.Println(a, b)

	// definitions
	c, d := f()
	c, q := f()
	fmt.Println(c, d, q)
	var v1, v2 int = f()
	var v3, v4 = f()
	fmt.Println(v1, v2, v3, v4)
	n, err := strconv.Atoi("5")
	fmt.Println(n, err)
	n, err = strconv.Atoi("x")
	fmt.Println(n, err)
	s[0], err = strconv.Atoi("77")
	fmt.Println(s, err)

	// map sources and single valued map assignments
	m := map[string]int{"a": 1}
	v, ok := m["a"]
	fmt.Println(v, ok)
	v, ok = m["z"]
	fmt.Println(v, ok)
	s[1], ok = m["a"]
	fmt.Println(s, ok)
	m["b"] = v
	m["c"], m["d"] = 3, 4
	m["a"], m["b"] = m["b"], m["a"]
	m["e"] = func() int { x, _ := f(); return x }()
	m["f"] += 5
	m["f"]++
	fmt.Println(m)
	var x interface{} = "str"
	str, ok := x.(string)
	p.x, ok = x.(int)
	fmt.Println(str, p, ok)
	ch := make(chan int, 1)
	ch <- 1
	s[2], ok = <-ch
	fmt.Println(s, ok)
	if w, ok := m["a"]; ok {
		fmt.Println("w", w)
	}
	for k, v := range map[string]int{"only": 1} {
		m[k], m[k+"2"] = v, v+1
	}
	fmt.Println(m)
}
