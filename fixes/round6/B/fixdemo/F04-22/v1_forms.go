package main

import (
	"fmt"
	"strconv"
)

type K struct{ a, b int }

type I interface{ M() int }

type A int

func (a A) M() int { return int(a) }

func f() (int, int)           { return 1, 2 }
func g() (string, error)      { return "g", fmt.Errorf("gerr") }
func h() (I, interface{}, K)  { return A(5), "h", K{1, 2} }
func v(n ...int) (int, []int) { return len(n), n }
func key(s string) string     { fmt.Println("key", s); return s }
func mk() map[string]int      { fmt.Println("mk"); return map[string]int{} }

type S struct {
	m map[string]int
	n int
}

func main() {
	// script function call
	mp := map[string]int{}
	mp["a"], mp["b"] = f()
	fmt.Println(mp)
	var x int
	x, mp["c"] = f()
	fmt.Println(x, mp)
	mp["d"], x = f()
	fmt.Println(x, mp)
	mp["a"], _ = f()
	_, mp["b"] = f()
	fmt.Println(mp)

	// other key and value types
	ms := map[int]string{}
	me := map[K]error{}
	ms[1], me[K{1, 2}] = g()
	fmt.Println(ms, me)
	mi := map[string]I{}
	ma := map[interface{}]interface{}{}
	mk2 := map[I]K{}
	var ik I = A(1)
	mi["i"], ma[1], mk2[ik] = h()
	fmt.Println(mi["i"].M(), ma, len(mk2), mk2[ik])
	ma["k"], ma[2.5], _ = h()
	fmt.Println(len(ma), ma["k"].(I).M(), ma[2.5])
	mv := map[string][]int{}
	mp["n"], mv["v"] = v(1, 2, 3)
	fmt.Println(mp["n"], mv)

	// nested maps, struct fields, pointers, slice of maps
	mm := map[string]map[string]int{"in": {}}
	mm["in"]["a"], mm["in"]["b"] = f()
	fmt.Println(mm)
	s := S{m: map[string]int{}}
	s.m["a"], s.n = f()
	fmt.Println(s)
	ps := &s
	ps.n, ps.m["b"] = f()
	fmt.Println(s)
	lm := []map[string]int{{}, {}}
	lm[0]["x"], lm[1]["y"] = f()
	fmt.Println(lm)

	// evaluation order of the operands of the destinations
	m2 := mk()
	m2[key("a")], m2[key("b")] = f()
	fmt.Println(m2)
	i := 0
	ks := []string{"k0", "k1"}
	mp[ks[i]], i = f()
	fmt.Println(mp["k0"], i)

	// host function call
	mp["atoi"], me[K{}] = strconv.Atoi("12")
	fmt.Println(mp["atoi"], me[K{}])
	_, me[K{3, 3}] = strconv.Atoi("zz")
	fmt.Println(me[K{3, 3}])
	mu := map[string]string{}
	mu["q"], me[K{4, 4}] = strconv.Unquote(`"quoted"`)
	fmt.Println(mu, me[K{4, 4}])

	// in a closure and a loop
	func() {
		for j := 0; j < 3; j++ {
			mp[fmt.Sprint("l", j)], x = f()
		}
	}()
	fmt.Println(len(mp), mp["l2"])
}
