package main

import (
	"bytes"
	"fmt"
	"io"
	"os"
	"strings"
	"time"
)

type W struct {
	Out io.Writer
	D   time.Duration
}

func main() {
	var w1, w2 io.Writer = os.Stdout, &bytes.Buffer{}
	w1, w2 = w2, w1
	fmt.Fprintln(w2, "to stdout")
	fmt.Fprintf(w1, "buffered")
	fmt.Println(w1.(*bytes.Buffer).String())

	var r io.Reader
	var sb *strings.Builder
	r, sb = strings.NewReader("abc"), &strings.Builder{}
	io.Copy(sb, r)
	fmt.Println(sb.String())

	d1, d2 := time.Second, 2*time.Minute
	d1, d2 = d2, d1
	fmt.Println(d1, d2)
	var d3 time.Duration
	d3, d1 = 5, d3
	fmt.Println(d3, d1)

	w := W{}
	w.Out, w.D = os.Stdout, time.Hour
	fmt.Fprintln(w.Out, w.D)
	var any interface{}
	any, w.Out = w.Out, nil
	fmt.Println(any == os.Stdout, w.Out == nil)

	os.Args, any = []string{"x"}, os.Args[:0]
	fmt.Println(os.Args, any)

	b1, b2 := bytes.NewBufferString("b1"), bytes.NewBufferString("b2")
	b1, b2 = b2, b1
	fmt.Println(b1, b2)
	var st1, st2 fmt.Stringer = b1, d2
	st1, st2 = st2, st1
	fmt.Println(st1, st2)
}
