package main

import "fmt"

type Pt struct{ X, Y int }

type F func(int) int

type MyInt int

func inc(i int) int { return i + 1 }
func dbl(i int) int { return i * 2 }

func main() {
	// plain swaps of concrete types
	a, b := 1, 2
	a, b = b, a
	fmt.Println(a, b)
	s, t := "s", "t"
	s, t = t, s
	fmt.Println(s, t)
	var f1, f2 float64
	f1, f2 = 1, 2.5 // untyped constants to float
	fmt.Println(f1, f2)
	f1, f2 = f2, f1
	fmt.Println(f1, f2)
	var u8 uint8
	var c complex128
	u8, c = 200, 1
	fmt.Println(u8, c)
	var mi MyInt
	var r rune
	mi, r = 4, 'x'
	fmt.Println(mi, r)
	mi, a = MyInt(a), int(mi)
	fmt.Println(mi, a)

	// structs, pointers, arrays, slices, maps
	p, q := Pt{1, 2}, Pt{3, 4}
	p, q = q, p
	fmt.Println(p, q)
	p.X, p.Y = p.Y, p.X
	fmt.Println(p)
	pp, pq := &p, &q
	pp, pq = pq, pp
	fmt.Println(*pp, *pq)
	*pp, *pq = *pq, *pp
	fmt.Println(p, q)
	ar := [3]int{1, 2, 3}
	ar[0], ar[2] = ar[2], ar[0]
	fmt.Println(ar)
	sl := []string{"a", "b", "c"}
	i := 0
	i, sl[i] = 2, "z"
	fmt.Println(i, sl)
	sl[0], sl[1], sl[2] = sl[2], sl[0], sl[1]
	fmt.Println(sl)
	m := map[string]int{"a": 1, "b": 2}
	m["a"], m["b"] = m["b"], m["a"]
	fmt.Println(m)
	m["c"], a = a, m["a"]
	fmt.Println(m, a)
	s1, s2 := []int{1}, []int{2, 3}
	s1, s2 = s2, s1
	fmt.Println(s1, s2)
	var np *Pt
	pp, np = np, pp
	fmt.Println(pp == nil, *np)
	m1, m2 := map[int]int{1: 1}, map[int]int(nil)
	m1, m2 = m2, m1
	fmt.Println(m1 == nil, m2)

	// functions
	g, h := inc, dbl
	g, h = h, g
	fmt.Println(g(3), h(3))
	var k F = inc
	var l F
	k, l = l, k
	fmt.Println(k == nil, l(1))
	k, l = dbl, func(i int) int { return -i }
	fmt.Println(k(4), l(4))
	cl1, cl2 := func() int { return a }, func() int { return 100 }
	cl1, cl2 = cl2, cl1
	fmt.Println(cl1(), cl2())

	// channels
	c1, c2 := make(chan int, 1), make(chan int, 1)
	c1 <- 1
	c2 <- 2
	c1, c2 = c2, c1
	fmt.Println(<-c1, <-c2)

	// blank
	_, a = 1, 2
	a, _ = a+1, "ignored"
	fmt.Println(a)

	// define with redeclaration
	x, y := 1, 2
	x, z := y, x
	fmt.Println(x, y, z)
}
