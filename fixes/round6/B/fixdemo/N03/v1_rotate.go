package main

import "fmt"

type S struct {
	X, Y interface{}
	n    int
}

func main() {
	// three-way rotation
	var a, b, c interface{} = 1, "x", 2.5
	a, b, c = b, c, a
	fmt.Println(a, b, c)
	a, b, c = c, a, b
	fmt.Println(a, b, c)

	// struct fields
	s := S{X: "sx", Y: 42}
	s.X, s.Y = s.Y, s.X
	fmt.Println(s)
	p := &s
	p.X, p.Y = p.Y, p.X
	fmt.Println(*p)

	// slice elements
	l := []interface{}{1, "two", 3.0}
	l[0], l[2] = l[2], l[0]
	fmt.Println(l)
	l[0], l[1], l[2] = l[1], l[2], l[0]
	fmt.Println(l)

	// array elements and map entries
	arr := [2]interface{}{"p", 'q'}
	arr[0], arr[1] = arr[1], arr[0]
	fmt.Println(arr)
	m := map[string]interface{}{"a": 1, "b": "bee"}
	m["a"], m["b"] = m["b"], m["a"]
	fmt.Println(m)

	// mixed destinations
	var v interface{} = []int{1, 2}
	v, l[0], s.X, m["a"] = m["a"], v, l[0], s.X
	fmt.Println(v, l, s, m)
}
