package main

import "fmt"

func main() {
	var p, q *int
	n := 1
	p, q = &n, nil
	fmt.Println(*p, q == nil)
	var s []int
	var m map[string]int
	s, m = nil, nil
	fmt.Println(s == nil, m == nil)
	var e error
	var i interface{}
	e, i = nil, nil
	fmt.Println(e, i)
}
