package main

import "fmt"

type Node struct {
	v    int
	next *Node
	kids []*Node
	m    map[string]*Node
	f    func(*Node) *Node
	i    interface{}
}

type Tree interface {
	Left() Tree
	Val() int
}

type leaf int

func (l leaf) Left() Tree { return nil }
func (l leaf) Val() int   { return int(l) }

type branch struct{ l, r Tree }

func (b *branch) Left() Tree { return b.l }
func (b *branch) Val() int   { return b.l.Val() + b.r.Val() }

func reverse(h *Node) *Node {
	var prev *Node
	for h != nil {
		h.next, prev, h = prev, h, h.next
	}
	return prev
}

func main() {
	a := &Node{v: 1}
	b := &Node{v: 2, next: a}
	c := &Node{v: 3, next: b}
	for n := reverse(c); n != nil; n = n.next {
		fmt.Print(n.v, " ")
	}
	fmt.Println()
	a.next, b.next = b.next, a.next
	a.kids, b.kids = []*Node{b}, []*Node{a, c}
	a.kids, b.kids = b.kids, a.kids
	fmt.Println(len(a.kids), len(b.kids))
	a.m, b.m = map[string]*Node{"b": b}, nil
	a.m, b.m = b.m, a.m
	fmt.Println(a.m == nil, b.m["b"].v)
	a.f, b.f = func(n *Node) *Node { return n.next }, nil
	a.f, b.f = b.f, a.f
	fmt.Println(a.f == nil, b.f(c) == nil)
	a.i, b.i = a, 5
	a.i, b.i = b.i, a.i
	fmt.Println(a.i, b.i.(*Node).v)
	*a, *b = *b, *a
	fmt.Println(a.v, b.v)

	var t1, t2 Tree = leaf(1), &branch{leaf(2), leaf(3)}
	t1, t2 = t2, t1
	fmt.Println(t1.Val(), t2.Val())
	t1, t2 = t1.Left(), &branch{t1, t2}
	fmt.Println(t1.Val(), t2.Val())
	t1, t2 = t1.Left(), nil
	fmt.Println(t1 == nil, t2 == nil)

	fib := func(n int) int {
		x, y := 0, 1
		for i := 0; i < n; i++ {
			x, y = y, x+y
		}
		return x
	}
	fmt.Println(fib(20))
	var arr [3][2]int
	arr[0], arr[1], arr[2] = [2]int{1, 2}, arr[0], [...]int{5, 6}
	fmt.Println(arr)
	type pair struct {
		k string
		v interface{}
	}
	ps := []pair{{"a", 1}, {"b", "two"}}
	ps[0], ps[1] = ps[1], ps[0]
	ps[0].v, ps[1].k = ps[1].v, ps[0].k
	fmt.Println(ps)
}
