package main

import "fmt"

type I interface{ M() int }

type A int

func (a A) M() int { return int(a) }

type B struct{ v int }

func (b *B) M() int { return b.v * 2 }

func swap(x, y interface{}) (a, b interface{}) {
	a, b = y, x
	return
}

func swap2(x, y interface{}) (a, b interface{}) {
	a, b = x, y
	a, b = b, a
	return a, b
}

func swapI(x, y I) (a, b I) {
	a, b = x, y
	a, b = b, a
	return
}

var ga, gb interface{} = "ga", 10

func main() {
	var a, b interface{} = 1, "x"
	f := func() {
		a, b = b, a
	}
	f()
	fmt.Println(a, b)
	f()
	fmt.Println(a, b)

	fmt.Println(swap(1, "one"))
	fmt.Println(swap2(2, "two"))
	x, y := swapI(A(3), &B{4})
	fmt.Println(x.M(), y.M())

	ga, gb = gb, ga
	fmt.Println(ga, gb)

	var i, j I = A(1), &B{2}
	i, j = j, i
	fmt.Println(i.M(), j.M())
	func() {
		i, j = j, i
	}()
	fmt.Println(i.M(), j.M())
	var e interface{} = "e"
	e, i = i, A(9)
	fmt.Println(e.(I).M(), i.M())

	// loop with swap (fibonacci on interface values)
	var p, q interface{} = 0, 1
	for k := 0; k < 5; k++ {
		p, q = q, p.(int)+q.(int)
	}
	fmt.Println(p, q)

	// goroutine + channel values
	ch := make(chan interface{}, 2)
	ch <- "c1"
	ch <- 2
	var r, s interface{}
	r, s = <-ch, <-ch
	r, s = s, r
	fmt.Println(r, s)

	_, a = a, b
	fmt.Println(a, b)
	a, _ = b, a
	fmt.Println(a, b)
}
