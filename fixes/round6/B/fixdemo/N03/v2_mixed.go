package main

import (
	"errors"
	"fmt"
)

type T struct{ n int }

func (t T) String() string { return fmt.Sprint("T", t.n) }

type P struct{ n int }

func (p *P) String() string { return fmt.Sprint("P", p.n) }

type Any interface{}

func main() {
	// mixed concrete / interface operands
	var a interface{} = 1
	n := 2
	var b interface{} = "s"
	a, n = n, 7
	fmt.Println(a, n)
	a, b = T{3}, a
	fmt.Println(a, b)
	a, b = b, &P{4}
	fmt.Println(a, b)
	a, b = 1.5, "lit"
	fmt.Println(a, b)
	var i8 int8 = 3
	a, b = i8, i8+1
	fmt.Printf("%T %v %T %v\n", a, a, b, b)

	// nil interface values
	var x, y interface{}
	x, y = y, x
	fmt.Println(x, y, x == nil, y == nil)
	x = 5
	x, y = y, x
	fmt.Println(x, y, x == nil, y == nil)
	x, y = nil, nil
	fmt.Println(x, y, x == nil, y == nil)
	x, y = 1, nil
	fmt.Println(x, y)

	// error values
	e1, e2 := errors.New("e1"), errors.New("e2")
	e1, e2 = e2, e1
	fmt.Println(e1, e2)
	var e3 error
	e1, e3 = e3, e1
	fmt.Println(e1, e3, e1 == nil)
	var ie interface{} = "ie"
	ie, e1 = e3, fmt.Errorf("new")
	fmt.Println(ie, e1)

	// fmt.Stringer with script types
	var s1, s2 fmt.Stringer = T{1}, &P{2}
	s1, s2 = s2, s1
	fmt.Println(s1, s2, s1.String(), s2.String())
	s1, s2 = T{8}, T{9}
	fmt.Println(s1.String(), s2.String())
	var s3 fmt.Stringer
	s1, s3 = s3, s1
	fmt.Println(s1 == nil, s3)
	a, s1 = s3, s2
	fmt.Println(a, s1)

	// named empty interface
	var p, q Any = 1, "q"
	p, q = q, p
	fmt.Println(p, q)
	p, a = a, p
	fmt.Println(p, a)

	// type retained through a swap
	var t1, t2 interface{} = T{5}, &P{6}
	t1, t2 = t2, t1
	if s, ok := t1.(fmt.Stringer); ok {
		fmt.Println("stringer", s.String())
	}
	_, ok := t2.(T)
	fmt.Println(ok)
}
