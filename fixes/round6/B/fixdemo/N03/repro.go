package main

import "fmt"

func main() {
	var a, b interface{} = 1, "x"
	a, b = b, a
	fmt.Println(a, b)
}
