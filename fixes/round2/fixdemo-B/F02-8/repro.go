package main

import "fmt"

func main() {
	var a, b int8 = 3, 4
	var e interface{}
	e = a + b
	fmt.Println(e)
	e = a < b
	fmt.Println(e)
	fmt.Println("end")
}
