package main

import "fmt"

type T struct{ e interface{} }

var g interface{}

func main() {
	var a, b int8 = 3, 4
	var e interface{}
	e = a + b
	fmt.Printf("%T %v\n", e, e)
	e = a < b
	fmt.Printf("%T %v\n", e, e)
	e = a == b
	fmt.Printf("%T %v\n", e, e)
	e = a * b
	fmt.Printf("%T %v\n", e, e)
	e = a != b
	fmt.Printf("%T %v\n", e, e)
	s1, s2 := "x", "y"
	e = s1 + s2
	fmt.Printf("%T %v\n", e, e)
	e = s1 >= s2
	fmt.Printf("%T %v\n", e, e)
	f1, f2 := 1.5, 2.5
	e = f1 * f2
	fmt.Printf("%T %v\n", e, e)
	e = f1 <= f2
	fmt.Printf("%T %v\n", e, e)
	e = f1 - f2
	fmt.Printf("%T %v\n", e, e)
	e = a < 10
	fmt.Printf("%T %v\n", e, e)
	e = 2 > a
	fmt.Printf("%T %v\n", e, e)
	e = a < b && b > 2
	fmt.Printf("%T %v\n", e, e)
	e = (a + b) > (a * 2)
	fmt.Printf("%T %v\n", e, e)
	var t T
	t.e = a + b
	t.e = a > b
	fmt.Printf("%T %v\n", t.e, t.e)
	g = f1 + f2
	g = f1 > f2
	fmt.Printf("%T %v\n", g, g)
	var i1, i2 interface{} = 1, 1
	e = i1 == i2
	fmt.Printf("%T %v\n", e, e)
	p := &a
	e = p == nil
	fmt.Printf("%T %v\n", e, e)
	e = p != nil
	fmt.Printf("%T %v\n", e, e)
	for i := 0; i < 3; i++ {
		e = int8(i) + a
		fmt.Printf("%T %v\n", e, e)
		e = int8(i) < a-2
		fmt.Printf("%T %v\n", e, e)
	}
	if e == false {
		fmt.Println("false!")
	}
	fmt.Println("end")
}
