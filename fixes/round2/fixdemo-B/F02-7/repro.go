package main

import "fmt"

func main() {
	a := true
	var e interface{}
	e = !a
	fmt.Println(e)
	fmt.Println("end")
}
