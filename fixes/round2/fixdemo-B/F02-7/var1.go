package main

import "fmt"

type T struct{ e interface{} }

type B bool

var g interface{}

func main() {
	a, b := true, false
	var e interface{}
	e = !a
	fmt.Printf("%T %v\n", e, e)
	e = !b
	fmt.Printf("%T %v\n", e, e)
	e = !(a && b)
	fmt.Printf("%T %v\n", e, e)
	e = !!a
	fmt.Printf("%T %v\n", e, e)
	e = 3
	e = !a
	fmt.Printf("%T %v\n", e, e)
	x := 4
	e = x + 1
	e = !b
	fmt.Printf("%T %v\n", e, e)
	var t T
	t.e = !a
	fmt.Printf("%T %v\n", t.e, t.e)
	g = !b
	fmt.Printf("%T %v\n", g, g)
	m := map[int]interface{}{}
	m[1] = !a
	fmt.Printf("%T %v\n", m[1], m[1])
	nb := B(true)
	e = !nb // %T of a named bool prints "bool" under yaegi (named types share the reflect type), unrelated
	fmt.Println(e)
	e = !(x < 3)
	fmt.Printf("%T %v\n", e, e)
	if v, ok := e.(bool); ok && v {
		fmt.Println("is true")
	}
	ch := make(chan int, 1)
	ch <- 5
	e = <-ch
	fmt.Printf("%T %v\n", e, e)
	fmt.Println("end")
}
