package main

import (
	"fmt"
	"unsafe"
)

type S struct{ p uintptr }

type Handle uintptr

var g uintptr = 10

func bump(p *uintptr) { *p++ }

func main() {
	var p uintptr = 5
	p++
	p++
	p--
	fmt.Println(p)
	s := S{100}
	s.p++
	s.p--
	s.p--
	fmt.Println(s.p)
	a := []uintptr{1, 2, 3}
	a[1]++
	a[2]--
	fmt.Println(a)
	m := map[string]uintptr{"k": 7}
	m["k"]++
	m["z"]--
	fmt.Println(m["k"], m["z"] == ^uintptr(0))
	g++
	fmt.Println(g)
	bump(&g)
	fmt.Println(g)
	var h Handle = 41
	h++
	fmt.Println(h)
	var zero uintptr
	zero--
	fmt.Println(zero == ^uintptr(0))
	zero++
	fmt.Println(zero)
	n := 0
	for q := uintptr(0); q < 4; q++ {
		n++
	}
	fmt.Println(n)
	func() {
		p++
	}()
	fmt.Println(p)
	buf := [4]byte{1, 2, 3, 4}
	addr := uintptr(unsafe.Pointer(&buf[0]))
	addr++
	fmt.Println(*(*byte)(unsafe.Pointer(addr)))
	// other unsigned and signed kinds still fine
	var u8 uint8 = 255
	u8++
	var i8 int8 = -128
	i8--
	fmt.Println(u8, i8)
	fmt.Println("end")
}
