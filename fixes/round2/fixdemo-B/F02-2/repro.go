package main

import "fmt"

func main() {
	var p uintptr = 5
	p++
	fmt.Println(p)
	p--
	p--
	fmt.Println(p)
	fmt.Println("end")
}
