package main

import (
	"fmt"
	"math"
)

type P struct {
	X, Y float64
}

type N struct {
	V    float32
	Next *N
}

type F64 float64

func div32(a, b float32) float32 { return a / b }
func div64(a, b float64) float64 { return a / b }
func sign(x float64) bool        { return math.Signbit(x) }
func cplx(c complex128) (bool, bool) {
	return math.Signbit(real(c)), math.Signbit(imag(c))
}
func pt(p P) (bool, bool)     { return math.Signbit(p.X), math.Signbit(p.Y) }
func arr(a [2]float64) bool   { return math.Signbit(a[1]) }
func named(f F64) bool        { return math.Signbit(float64(f)) }
func node(n N) bool           { return math.Signbit(float64(n.V)) }
func vari(xs ...float64) bool { return math.Signbit(xs[0]) }
func iface(e interface{}) bool {
	return math.Signbit(e.(float64))
}
func mixed(i int, f float64, s string, g float32) (bool, bool) {
	return math.Signbit(f), math.Signbit(float64(g))
}
func (p P) meth(f float64) bool { return math.Signbit(f) }
func rec(f float64, n int) bool {
	if n == 0 {
		return math.Signbit(f)
	}
	return rec(f, n-1)
}

func main() {
	var z32 float32
	z32 = -z32
	z := 0.0
	z = -z
	fmt.Println(div32(1, z32), div32(1, 0))
	fmt.Println(div64(1, z), div64(-1, z), div64(1, -z))
	fmt.Println(sign(z), sign(0), sign(-z), sign(math.Copysign(0, -1)))
	fmt.Println(cplx(complex(z, 0)))
	fmt.Println(cplx(complex(0, z)))
	fmt.Println(cplx(complex(z, z)))
	fmt.Println(pt(P{z, 0}))
	fmt.Println(pt(P{0, z}))
	fmt.Println(pt(P{}))
	fmt.Println(arr([2]float64{0, z}))
	fmt.Println(named(F64(z)))
	fmt.Println(node(N{V: z32}))
	fmt.Println(vari(z))
	fmt.Println(iface(z))
	fmt.Println(mixed(0, z, "", z32))
	fmt.Println(mixed(0, 0, "", 0))
	fmt.Println(P{}.meth(z))
	fmt.Println(rec(z, 3))
	fn := func(f float64) bool { return math.Signbit(f) }
	fmt.Println(fn(z), fn(0))
	done := make(chan bool)
	go func(f float64) { done <- math.Signbit(f) }(z)
	fmt.Println(<-done)
	defer func(f float64) { fmt.Println("deferred", math.Signbit(f)) }(z)
	// zero values of other kinds keep being passed as zero values
	func(i int, s string, p *P, m map[string]int, sl []int, e error, n N) {
		fmt.Println(i, s == "", p == nil, m == nil, sl == nil, e == nil, n.Next == nil, n.V)
	}(0, "", nil, nil, nil, nil, N{})
}
