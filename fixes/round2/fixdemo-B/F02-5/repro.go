package main

import (
	"fmt"
	"math"
)

func f(a, b float32) float32 { return a / b }

func main() {
	var z float32
	z = -z
	fmt.Println(f(1, z))
	fmt.Println(math.Signbit(float64(z)))
}
