package main

import (
	"fmt"
	"runtime"
)

type S struct{ n int8 }

func try(name string, f func() int) {
	defer func() {
		if r := recover(); r != nil {
			_, isRT := r.(runtime.Error)
			fmt.Println(name, "panic:", r, isRT)
		}
	}()
	fmt.Println(name, f())
}

func count() int { return -1 }

func main() {
	var s8 int8 = -1
	var s16 int16 = -2
	var s32 int32 = -3
	var s64 int64 = -4
	s := -5
	st := S{-6}
	arr := []int{2, -2}
	var u8 uint8 = 200
	var u uint = 3
	x := 40
	var ux uint32 = 40

	// signed left operand, signed negative counts of every size
	try("shl8", func() int { return x << s8 })
	try("shl16", func() int { return x << s16 })
	try("shr32", func() int { return x >> s32 })
	try("shr64", func() int { return x >> s64 })
	try("shlint", func() int { return x << s })
	// unsigned left operand
	try("ushl", func() int { return int(ux << s) })
	try("ushr", func() int { return int(ux >> s8) })
	// constant left operand
	try("cshl", func() int { return 1 << s })
	try("cshr", func() int { var r int64 = 1024 >> s; return int(r) })
	try("ucshl", func() int { var r uint16 = 1 << s; return int(r) })
	// shift assignment
	try("shlas", func() int { y := x; y <<= s; return y })
	try("shras", func() int { y := ux; y >>= s16; return int(y) })
	// count from field, element, call, expression
	try("field", func() int { return x << st.n })
	try("elem", func() int { return x << arr[1] })
	try("elemok", func() int { return x << arr[0] })
	try("call", func() int { return x >> count() })
	try("expr", func() int { return x << (s + 2) })
	try("exprok", func() int { return x << (s + 7) })
	// to an interface variable
	try("iface", func() int { var e interface{} = x << s; return e.(int) })
	// non negative and unsigned counts keep working, including large ones
	try("ok1", func() int { return x << u })
	try("ok2", func() int { return x >> u8 })
	try("ok3", func() int { t := 70; return x << t })
	try("ok4", func() int { t := 70; return -x >> t })
	try("ok5", func() int { t := int8(3); return int(ux << t) })
	try("ok6", func() int { var big uint64 = 0x8000000000000000; return x >> big })
	try("ok7", func() int { z := 0; return x << z })
	// in a loop: panics only when the count goes negative
	try("loop", func() int {
		r := 0
		for i := 2; i > -2; i-- {
			r += 1 << i
			fmt.Println("i", i, "r", r)
		}
		return r
	})
	fmt.Println("end")
}
