package main

import "fmt"

func try(name string, f func() int) {
	defer func() {
		if r := recover(); r != nil {
			fmt.Println(name, "panic:", r)
		}
	}()
	fmt.Println(name, f())
}

func main() {
	s := -3
	try("shl", func() int { return 1 << s })
	try("shr", func() int { return -8 >> s })
	try("ok", func() int { t := 3; return 1 << t })
}
