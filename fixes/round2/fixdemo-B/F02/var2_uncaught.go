package main

import "fmt"

func main() {
	s := -3
	fmt.Println("before")
	fmt.Println(1 << s)
	fmt.Println("not reached")
}
