package main

import "fmt"


func show(e interface{}) { fmt.Printf("%T %v\n", e, e) }

func main() {
	show(7 % len("abc"))
	x, y := 9, 4
	show(x % y)
	show(x < y)
	show(!(x < y))
	show(-x)
	show(x >> 1)
	var d interface{} = x % y
	show(d)
	var d2 interface{} = x < y
	show(d2)
	d3 := []interface{}{x % y, x < y, -x, ^x, x << 1}
	show(d3)
}
