package main

import "fmt"

func main() {
	a, b := 17, 5
	var e interface{}
	e = a % b
	fmt.Println(e)
	e = a << 2
	fmt.Println(e)
	e = a >> 1
	fmt.Println(e)
	e = -a
	fmt.Println(e)
	e = ^a
	fmt.Println(e)
	fmt.Println("end")
}
