package main

import "fmt"

type T struct{ e interface{} }

type MyInt int16

func (m MyInt) String() string { return fmt.Sprintf("MyInt(%d)", int16(m)) }

var g interface{}

func main() {
	var a8, b8 int8 = 17, 5
	var c64, d64 int64 = 1 << 40, 7
	var u, v uint16 = 500, 3
	var e interface{}
	// after an arithmetic result of another type
	e = a8 + b8
	fmt.Printf("%T %v\n", e, e)
	e = c64 % d64
	fmt.Printf("%T %v\n", e, e)
	e = u % v
	fmt.Printf("%T %v\n", e, e)
	e = u << v
	fmt.Printf("%T %v\n", e, e)
	e = c64 >> uint(d64)
	fmt.Printf("%T %v\n", e, e)
	e = 7 % a8
	fmt.Printf("%T %v\n", e, e)
	e = a8 % 3
	fmt.Printf("%T %v\n", e, e)
	e = -c64
	fmt.Printf("%T %v\n", e, e)
	e = ^u
	fmt.Printf("%T %v\n", e, e)
	e = +a8
	fmt.Printf("%T %v\n", e, e)
	f := 2.5
	e = -f
	fmt.Printf("%T %v\n", e, e)
	// nesting
	e = (a8 % b8) << 1
	fmt.Printf("%T %v\n", e, e)
	e = -(a8 % b8)
	fmt.Printf("%T %v\n", e, e)
	e = ^(u >> 2) % 7
	fmt.Printf("%T %v\n", e, e)
	// struct field, global, map and slice element destinations
	var t T
	t.e = c64 % d64
	fmt.Printf("%T %v\n", t.e, t.e)
	g = u % v
	fmt.Printf("%T %v\n", g, g)
	m := map[string]interface{}{}
	m["k"] = a8 % b8
	fmt.Printf("%T %v\n", m["k"], m["k"])
	s := make([]interface{}, 2)
	s[1] = -a8
	fmt.Printf("%T %v\n", s[1], s[1])
	p := &e
	*p = a8 >> 1
	fmt.Printf("%T %v\n", e, e)
	// non empty interface
	var st fmt.Stringer
	x, y := MyInt(17), MyInt(5)
	st = x % y
	fmt.Println(st.String())
	st = -x
	fmt.Println(st)
	st = x << 2
	fmt.Println(st)
	// in a loop and in a closure
	for i := 1; i < 4; i++ {
		e = c64 % int64(i+1)
		fmt.Printf("%T %v\n", e, e)
	}
	func() {
		e = u >> 1
	}()
	fmt.Printf("%T %v\n", e, e)
	// type switch on result
	e = a8 % b8
	switch w := e.(type) {
	case int8:
		fmt.Println("int8", w)
	default:
		fmt.Println("other", w)
	}
	fmt.Println("end")
}
