package main

import "fmt"

type MyInt int16

func (m MyInt) String() string { return fmt.Sprintf("MyInt(%d)", int16(m)) }

func r1(a, b int) interface{}                { return a % b }
func r2(a bool) interface{}                  { return !a }
func r3(a, b int) interface{}                { return a < b }
func r4(a int) interface{}                   { return -a }
func r5(a, b int) interface{}                { return a + b }
func r6(a uint8) interface{}                 { return a << 2 }
func r7(a, b int) (interface{}, interface{}) { return a % b, a >= b }
func r8(a, b MyInt) fmt.Stringer             { return a % b }
func r9(a MyInt) fmt.Stringer                { return -a }
func r10(a int8) (int, interface{}, error)   { return 1, ^a, nil }
func r11(a, b float64) interface{}           { return a*b > 1 }
func r12(a, b int) (r interface{})           { r = a >> 1; return }
func r13(a int) interface{} {
	if a > 2 {
		return a % 2
	}
	return a == 2
}
func r14(ch chan int) interface{} { return <-ch }
func r15(a, b int) int            { return a % b }
func r16(a bool) bool             { return !a }
func r17(a, b int) bool           { return a < b }

func show(e ...interface{}) {
	for _, v := range e {
		fmt.Printf("%T %v; ", v, v)
	}
	fmt.Println()
}

func main() {
	show(r1(7, 3))
	show(r2(true))
	show(r3(1, 2))
	show(r4(7))
	show(r5(1, 2))
	show(r6(100))
	show(r7(7, 2))
	fmt.Println(r8(17, 5), r9(4))
	show(r10(5))
	show(r11(1.5, 2))
	show(r12(9, 0))
	show(r13(5), r13(2), r13(1))
	ch := make(chan int, 1)
	ch <- 3
	show(r14(ch))
	show(r15(9, 5), r16(false), r17(2, 1))
	f := func(a, b int) interface{} { return a &^ b }
	show(f(7, 2))
}
