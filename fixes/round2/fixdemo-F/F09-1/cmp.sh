#!/bin/sh
# Compare every script under go run and under the interpreter.
export GOFLAGS=-mod=mod GOPROXY=off GOSUMDB=off GOTOOLCHAIN=local
cd "$(dirname "$0")"
go build -o /tmp/f091-runner . || exit 1
rc=0
for s in testdata/*.go; do
	want=$(go run "$s" 2>&1)
	got=$(/tmp/f091-runner "$s" 2>&1)
	if [ "$want" = "$got" ]; then echo "ok   $s: $got"; else echo "FAIL $s: go run: $want / yaegi: $got"; rc=1; fi
done
exit $rc
