//go:build verif

// F09-1, forced schedule (go run -tags verif . ): the evaluation is cancelled just before
// its k-th operation, and the cancelled goroutines are left the time to finish before the
// operation is executed. For some k the operation is the call of the `go` statement, which
// follows the creation of the function literal: the epilogue of an earlier activation has
// then reset the slot of the literal. Every k runs in a child process, since the defect
// kills the process.
package main

import (
	"context"
	"fmt"
	"os"
	"os/exec"
	"strconv"
	"strings"
	"sync/atomic"
	"time"

	"github.com/traefik/yaegi/interp"
)

var progs = []string{`package main
func main() {
	c := make(chan int)
	for i := 0; i < 3; i++ {
		go func() { <-c }()
		for j := 0; j < 2; j++ {}
	}
	for {}
}`, `package main
func main() {
	c := make(chan string)
	for i := 0; i < 3; i++ {
		go func(x int) { c <- "x" }(i)
	}
	for {}
}`, `package main
func main() {
	c := make(chan int)
	start := func() { go func() { select { case <-c: } }() }
	for { start() }
}`}

func child(p, k int) {
	i := interp.New(interp.Options{})
	ctx, cancel := context.WithCancel(context.Background())
	var steps int64
	interp.VerifSetStepHook(func(interp.VerifStepInfo) {
		if atomic.AddInt64(&steps, 1) == int64(k) {
			cancel()
			time.Sleep(100 * time.Millisecond)
		}
	})
	_, err := i.EvalWithContext(ctx, progs[p])
	time.Sleep(300 * time.Millisecond)
	fmt.Println("done:", err)
}

func main() {
	if len(os.Args) == 3 {
		p, _ := strconv.Atoi(os.Args[1])
		k, _ := strconv.Atoi(os.Args[2])
		child(p, k)
		return
	}
	crashes := 0
	for p := range progs {
		for k := 1; k <= 70; k++ {
			out, err := exec.Command(os.Args[0], strconv.Itoa(p), strconv.Itoa(k)).CombinedOutput()
			if err != nil || !strings.Contains(string(out), "done: context canceled") {
				crashes++
				fmt.Printf("prog %d k=%d: %v: %s\n", p, k, err, strings.SplitN(string(out), "\n", 2)[0])
			}
		}
	}
	if crashes > 0 {
		fmt.Println(crashes, "crashes")
		os.Exit(1)
	}
	fmt.Println("no crash")
}
