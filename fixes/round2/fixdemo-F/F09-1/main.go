// F09-1: `go func() {…}()` executed in a loop while earlier activations of the same
// literal are blocked in a channel operation; the cancellation must not crash the host
// (panic: reflect.Value.Call: call of nil function, in a goroutine of the interpreter).
//
//	go run . stress [n]       n cancelled evaluations, with varying delays
//	go run . file.go          evaluate a script (to compare with go run file.go)
package main

import (
	"context"
	"fmt"
	"os"
	"strconv"
	"time"

	"github.com/traefik/yaegi/interp"
	"github.com/traefik/yaegi/stdlib"
)

var progs = []string{
	// the reproduction: the literal is started again while earlier activations are blocked
	`package main
func main() {
	c := make(chan int)
	for {
		go func() { <-c }()
		for i := 0; i < 3; i++ {}
	}
}`,
	// with an argument and a send
	`package main
func main() {
	c := make(chan int)
	for i := 0; ; i++ {
		go func(x int) { c <- x }(i)
	}
}`,
	// select and range in the literal, two literals in the loop
	`package main
func main() {
	c, d := make(chan int), make(chan string)
	for {
		go func() { select { case <-c: case d <- "x": } }()
		go func() { for range c {} }()
	}
}`,
	// the literal is in a closure called in the loop
	`package main
func main() {
	c := make(chan struct{})
	start := func() { go func() { v, ok := <-c; _, _ = v, ok }() }
	for { start() }
}`,
	// the loop is in a goroutine as well, the literal is nested
	`package main
func main() {
	c := make(chan int)
	go func() {
		for { go func() { go func() { <-c }(); <-c }() }
	}()
	select {}
}`,
	// deferred literal and goroutine literal in a function called in a loop
	`package main
func f(c chan int) {
	defer func() { recover() }()
	go func() { c <- 1 }()
}
func main() {
	c := make(chan int)
	for { f(c) }
}`,
}

func stress(n int) {
	for k := 0; k < n; k++ {
		i := interp.New(interp.Options{})
		if err := i.Use(stdlib.Symbols); err != nil {
			panic(err)
		}
		d := time.Duration(1+k%17) * 3 * time.Millisecond
		ctx, cancel := context.WithTimeout(context.Background(), d)
		t0 := time.Now()
		_, err := i.EvalWithContext(ctx, progs[k%len(progs)])
		cancel()
		if err != context.DeadlineExceeded || time.Since(t0) > 3*time.Second {
			fmt.Println("FAIL", k, err, time.Since(t0))
			os.Exit(1)
		}
		// Leave time to the goroutines to stop (or to crash).
		time.Sleep(20 * time.Millisecond)
	}
	fmt.Println("stress: ok,", n, "cancelled evaluations, no crash")
}

func main() {
	if len(os.Args) < 2 {
		fmt.Println("usage: F09-1 stress [n] | file.go")
		os.Exit(2)
	}
	if os.Args[1] == "stress" {
		n := 120
		if len(os.Args) > 2 {
			n, _ = strconv.Atoi(os.Args[2])
		}
		stress(n)
		return
	}
	i := interp.New(interp.Options{})
	if err := i.Use(stdlib.Symbols); err != nil {
		panic(err)
	}
	if _, err := i.EvalPath(os.Args[1]); err != nil {
		fmt.Println("error:", err)
		os.Exit(1)
	}
}
