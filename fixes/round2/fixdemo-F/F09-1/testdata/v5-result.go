package main

import "fmt"

// The literal of the loop is also called directly and through defer.
func main() {
	res := make(chan string, 100)
	for i := 0; i < 30; i++ {
		s := fmt.Sprint("g", i)
		func() {
			defer func() { res <- "d" + s }()
			go func() { res <- s }()
		}()
		v := func(x int) int { return x * x }(i)
		if v != i*i {
			fmt.Println("bad", v)
		}
	}
	n, nd := 0, 0
	for i := 0; i < 60; i++ {
		if s := <-res; s[0] == 'd' {
			nd++
		} else {
			n++
		}
	}
	fmt.Println(n, nd)
}
