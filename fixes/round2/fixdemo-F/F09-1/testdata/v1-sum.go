package main

import "fmt"

func main() {
	out := make(chan int)
	const n = 2000
	for i := 0; i < n; i++ {
		i := i
		go func() { out <- i }()
	}
	sum := 0
	for i := 0; i < n; i++ {
		sum += <-out
	}
	fmt.Println(sum == n*(n-1)/2, sum)
}
