package main

import (
	"fmt"
	"sort"
	"sync"
)

func main() {
	var wg sync.WaitGroup
	var mu sync.Mutex
	var got []string
	for _, w := range []string{"a", "b", "c", "d", "e", "f", "g", "h"} {
		for k := 0; k < 3; k++ {
			wg.Add(1)
			go func() {
				defer wg.Done()
				mu.Lock()
				got = append(got, fmt.Sprint(w, k))
				mu.Unlock()
			}()
		}
	}
	wg.Wait()
	sort.Strings(got)
	fmt.Println(got)
}
