package main

import (
	"fmt"
	"sync"
)

type acc struct {
	mu sync.Mutex
	v  []int
}

func (a *acc) add(x int) { a.mu.Lock(); a.v = append(a.v, x); a.mu.Unlock() }

func main() {
	var wg sync.WaitGroup
	a := &acc{}
	start := func(base int) {
		for j := 0; j < 20; j++ {
			wg.Add(1)
			go func() {
				defer wg.Done()
				wg.Add(1)
				go func(y int) {
					defer wg.Done()
					a.add(base*100 + y)
				}(j)
			}()
		}
	}
	for i := 0; i < 20; i++ {
		start(i)
	}
	wg.Wait()
	sum := 0
	for _, x := range a.v {
		sum += x
	}
	fmt.Println(len(a.v), sum)
}
