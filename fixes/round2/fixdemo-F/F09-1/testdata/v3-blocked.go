package main

import "fmt"

// Earlier activations are blocked while the literal is started again, then released.
func main() {
	gate := make(chan struct{})
	out := make(chan int)
	const n = 300
	for i := 0; i < n; i++ {
		k := i * 2
		go func() {
			<-gate
			out <- k
		}()
		if i%7 == 0 {
			for j := 0; j < 10; j++ {
			}
		}
	}
	close(gate)
	sum := 0
	for i := 0; i < n; i++ {
		sum += <-out
	}
	fmt.Println(sum, sum == n*(n-1))
}
