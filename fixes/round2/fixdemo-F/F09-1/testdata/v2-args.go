package main

import (
	"fmt"
	"sync"
)

func main() {
	var wg sync.WaitGroup
	var mu sync.Mutex
	seen := map[string]int{}
	for i := 0; i < 500; i++ {
		wg.Add(2)
		go func(x int, s string) {
			defer wg.Done()
			mu.Lock()
			seen[fmt.Sprint(s, x%5)]++
			mu.Unlock()
		}(i, "a")
		go func(f float64) {
			defer wg.Done()
			mu.Lock()
			seen[fmt.Sprint("f", int(f)%3)]++
			mu.Unlock()
		}(float64(i))
	}
	wg.Wait()
	fmt.Println(seen["a0"], seen["a1"], seen["a4"], seen["f0"], seen["f1"], seen["f2"], len(seen))
}
