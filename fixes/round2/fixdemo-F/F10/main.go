// F10: function values created before a cancelled evaluation must keep working.
package main

import (
	"context"
	"fmt"
	"os"
	"reflect"
	"time"

	"github.com/traefik/yaegi/interp"
	"github.com/traefik/yaegi/stdlib"
)

const defs = `
import "sort"

func mk(a int) func(int) int { return func(x int) int { return a*x + 2 } }

var clo = mk(5)

type T struct{ n int }

func (t T) M(x int) int   { return t.n + x }
func (t *T) P(x int) int  { t.n += x; return t.n }

func bind() func(int) int { t := T{3}; return t.M }

var mv = bind()

func bindp() func(int) int { t := &T{10}; return t.P }

var mp = bindp()

func Top(x int) int { return x + 1 }

// nested closures, two levels
func mk2(a int) func(int) func(int) int {
	return func(b int) func(int) int {
		return func(c int) int { return a*100 + b*10 + c }
	}
}

var clo2 = mk2(1)
var clo3 = clo2(2)

// closure with a string result and a captured counter
func counter() func() string {
	n := 0
	return func() string { n++; s := ""; for i := 0; i < n; i++ { s += "x" }; return s }
}

var cnt = counter()

// closure stored in a struct field and in a map
type H struct{ f func(int) int }

var h = H{f: mk(7)}
var m = map[string]func(int) int{"a": mk(9)}

// closure used as a callback of a binary function
func sorted(s []int) []int {
	less := func(i, j int) bool { return s[i] > s[j] }
	return func() []int { sort.Slice(s, less); return s }()
}

var srt = func() func([]int) []int {
	k := 1
	return func(s []int) []int {
		sort.Slice(s, func(i, j int) bool { return k*s[i] > k*s[j] })
		return s
	}
}()

func useMulti() int {
	a, s, b := multi(2)
	if s == "ok" && b {
		return a
	}
	return -1
}

// closure returning several values
var multi = func() func(int) (int, string, bool) {
	base := 40
	return func(x int) (int, string, bool) { return base + x, "ok", x > 0 }
}()
`

var fails int

func check(name string, got, want interface{}) {
	if !reflect.DeepEqual(got, want) {
		fails++
		fmt.Printf("FAIL %-28s got %v want %v\n", name, got, want)
		return
	}
	fmt.Printf("ok   %-28s %v\n", name, got)
}

func ev(i *interp.Interpreter, src string) interface{} {
	v, err := i.Eval(src)
	if err != nil {
		return "error: " + err.Error()
	}
	if !v.IsValid() {
		return nil
	}
	return v.Interface()
}

func cancelled(i *interp.Interpreter, src string) {
	ctx, cancel := context.WithTimeout(context.Background(), 100*time.Millisecond)
	defer cancel()
	t0 := time.Now()
	_, err := i.EvalWithContext(ctx, src)
	if err != context.DeadlineExceeded || time.Since(t0) > 2*time.Second {
		fails++
		fmt.Println("FAIL cancellation:", err, time.Since(t0))
	}
}

func uses(i *interp.Interpreter, tag string, host map[string]interface{}, hostToo bool) {
	check(tag+" clo(4)", ev(i, "clo(4)"), 22)
	check(tag+" mv(4)", ev(i, "mv(4)"), 7)
	check(tag+" Top(4)", ev(i, "Top(4)"), 5)
	check(tag+" clo3(3)", ev(i, "clo3(3)"), 123)
	check(tag+" clo2(5)(6)", ev(i, "clo2(5)(6)"), 156)
	check(tag+" h.f(1)", ev(i, "h.f(1)"), 9)
	check(tag+` m["a"](1)`, ev(i, `m["a"](1)`), 11)
	check(tag+" srt", ev(i, "srt([]int{1,3,2})"), []int{3, 2, 1})
	check(tag+" sorted", ev(i, "sorted([]int{1,3,2})"), []int{3, 2, 1})
	check(tag+" multi", ev(i, "useMulti()"), 42)
	if !hostToo {
		return
	}
	check(tag+" host clo(4)", host["clo"].(func(int) int)(4), 22)
	check(tag+" host mv(4)", host["mv"].(func(int) int)(4), 7)
	check(tag+" host Top(4)", host["Top"].(func(int) int)(4), 5)
	check(tag+" host clo3(3)", host["clo3"].(func(int) int)(3), 123)
	a, s, b := host["multi"].(func(int) (int, string, bool))(2)
	check(tag+" host multi", fmt.Sprintln(a, s, b), "42 ok true\n")
}

func main() {
	i := interp.New(interp.Options{})
	if err := i.Use(stdlib.Symbols); err != nil {
		panic(err)
	}
	if _, err := i.Eval(defs); err != nil {
		panic(err)
	}
	host := map[string]interface{}{}
	for _, name := range []string{"clo", "mv", "Top", "clo3", "multi"} {
		host[name] = ev(i, name)
	}
	uses(i, "before", host, true)
	check("before cnt", ev(i, "cnt()"), "x")
	check("before mp", ev(i, "mp(1)"), 11)

	cancelled(i, "for {}")
	// Host calls between the cancellation and the next evaluation: they work once the
	// cancelled evaluation has returned (its goroutine, not EvalWithContext).
	time.Sleep(50 * time.Millisecond)
	check("idle host clo(4)", host["clo"].(func(int) int)(4), 22)
	check("idle host mv(4)", host["mv"].(func(int) int)(4), 7)
	check("idle host Top(4)", host["Top"].(func(int) int)(4), 5)

	uses(i, "after", host, true)
	check("after cnt", ev(i, "cnt()"), "xx")
	check("after mp", ev(i, "mp(1)"), 12)

	// A second cancellation, in a closure called from the cancelled evaluation.
	cancelled(i, "for { clo(1) }")
	uses(i, "after2", host, true)
	check("after2 cnt", ev(i, "cnt()"), "xxx")

	// The cancellation still stops a closure created earlier.
	if _, err := i.Eval("var spin = func() func() int { n := 0; return func() int { for { n++ }; return n } }()"); err != nil {
		panic(err)
	}
	cancelled(i, "spin()")
	uses(i, "after3", host, false)

	if fails > 0 {
		fmt.Println(fails, "failures")
		os.Exit(1)
	}
	fmt.Println("all ok")
}
