// F09-2 / F26: a goroutine blocked in a channel operation of a function defined by an
// earlier evaluation must be released when the evaluation which called it is cancelled.
//
//	-mode=plain    the functions are compiled by a plain Eval, before any EvalWithContext (F26)
//	-mode=earlier  the functions are closures stored by an earlier, completed EvalWithContext (F09-2)
//	-mode=same     the functions are defined by the cancelled evaluation itself (control)
package main

import (
	"context"
	"flag"
	"fmt"
	"os"
	"reflect"
	"runtime"
	"sort"
	"strings"
	"sync"
	"time"

	"github.com/traefik/yaegi/interp"
	"github.com/traefik/yaegi/stdlib"
)

// Top level functions and closures, one per kind of blocking operation.
const defs = `
import "host"

var (
	n1 = make(chan int)
	n2 = make(chan int)
	n3 = make(chan int)
	n4 = make(chan int)
	n5 = make(chan int)
	n6 = make(chan int)
)

func fRecv()   { host.Enter("fRecv"); defer host.Leave("fRecv"); <-n1; host.Wrong("fRecv") }
func fRecvV()  { host.Enter("fRecvV"); defer host.Leave("fRecvV"); v := <-n2; host.Wrong("fRecvV"); _ = v }
func fRecv2()  { host.Enter("fRecv2"); defer host.Leave("fRecv2"); v, ok := <-n3; host.Wrong("fRecv2"); _, _ = v, ok }
func fRecvIf() { host.Enter("fRecvIf"); defer host.Leave("fRecvIf"); b := make(chan bool); if <-b { host.Wrong("fRecvIf") }; host.Wrong("fRecvIf") }
func fSend()   { host.Enter("fSend"); defer host.Leave("fSend"); n4 <- 1; host.Wrong("fSend") }
func fSelect() { host.Enter("fSelect"); defer host.Leave("fSelect"); select { case <-n5: case n5 <- 2: }; host.Wrong("fSelect") }
func fRange()  { host.Enter("fRange"); defer host.Leave("fRange"); for v := range n6 { _ = v }; host.Wrong("fRange") }

func mk(name string) func() {
	c := make(chan string)
	return func() { host.Enter(name); defer host.Leave(name); c <- name; host.Wrong(name) }
}

var cSend = mk("cSend")

var cRecv = func() func() {
	c := make(chan struct{})
	return func() { host.Enter("cRecv"); defer host.Leave("cRecv"); <-c; host.Wrong("cRecv") }
}()

var cRecv2 = func() func() {
	c := make(chan struct{})
	return func() { host.Enter("cRecv2"); defer host.Leave("cRecv2"); _, ok := <-c; host.Wrong("cRecv2"); _ = ok }
}()

var cSelect = func() func() {
	c, d := make(chan int), make(chan string)
	return func() {
		host.Enter("cSelect")
		defer host.Leave("cSelect")
		select {
		case v := <-c:
			_ = v
		case d <- "x":
		}
		host.Wrong("cSelect")
	}
}()

var cRange = func() func() {
	c := make(chan int)
	return func() { host.Enter("cRange"); defer host.Leave("cRange"); for range c { }; host.Wrong("cRange") }
}()

// a closure calling a top level function, and a nested closure
var cNest = func() func() {
	c := make(chan int)
	return func() {
		host.Enter("cNest")
		defer host.Leave("cNest")
		func() { inner := func() int { return <-c }; inner() }()
		host.Wrong("cNest")
	}
}()

type T struct{ c chan int }

func (t *T) M() { host.Enter("mv"); defer host.Leave("mv"); <-t.c; host.Wrong("mv") }

var mv = func() func() { t := &T{make(chan int)}; return t.M }()
`

var names = []string{"fRecv", "fRecvV", "fRecv2", "fRecvIf", "fSend", "fSelect", "fRange", "cSend", "cRecv", "cRecv2", "cSelect", "cRange", "cNest", "mv"}

var (
	mu      sync.Mutex
	entered = map[string]int{}
	left    = map[string]int{}
	wrong   = map[string]int{}
)

func count(m map[string]int) func(string) {
	return func(s string) { mu.Lock(); m[s]++; mu.Unlock() }
}

func snapshot(m map[string]int) string {
	mu.Lock()
	defer mu.Unlock()
	var l []string
	for k, v := range m {
		l = append(l, fmt.Sprintf("%s:%d", k, v))
	}
	sort.Strings(l)
	return strings.Join(l, " ")
}

func main() {
	mode := flag.String("mode", "earlier", "plain, earlier or same")
	flag.Parse()

	i := interp.New(interp.Options{})
	if err := i.Use(stdlib.Symbols); err != nil {
		panic(err)
	}
	if err := i.Use(interp.Exports{"host/host": {
		"Enter": reflect.ValueOf(count(entered)),
		"Leave": reflect.ValueOf(count(left)),
		"Wrong": reflect.ValueOf(count(wrong)),
	}}); err != nil {
		panic(err)
	}

	var err error
	prog := ""
	switch *mode {
	case "plain":
		_, err = i.Eval(defs)
	case "earlier":
		_, err = i.EvalWithContext(context.Background(), defs)
	case "same":
		prog = defs
	}
	if err != nil {
		panic(err)
	}
	base := runtime.NumGoroutine()

	// An init function: a main function would be run again by every later Eval.
	prog += "\nfunc init() {\n"
	for _, n := range names {
		prog += "\tgo " + n + "()\n"
	}
	prog += "\tfor {}\n}\n"
	prog = "package main\n" + prog

	ctx, cancel := context.WithTimeout(context.Background(), 300*time.Millisecond)
	defer cancel()
	t0 := time.Now()
	_, err = i.EvalWithContext(ctx, prog)
	fmt.Println("cancelled evaluation:", err, time.Since(t0) < 2*time.Second)

	// Let the goroutines observe the cancellation.
	for k := 0; k < 50 && runtime.NumGoroutine() > base; k++ {
		time.Sleep(20 * time.Millisecond)
	}
	fails := 0
	for _, n := range names {
		mu.Lock()
		e, l, w := entered[n], left[n], wrong[n]
		mu.Unlock()
		status := "released"
		if e != 1 || l != 1 || w != 0 {
			status = fmt.Sprintf("BLOCKED (entered %d, left %d, went on %d)", e, l, w)
			fails++
		}
		fmt.Printf("%-8s %s\n", n, status)
	}
	fmt.Println("goroutines still alive:", runtime.NumGoroutine()-base)
	if g := runtime.NumGoroutine() - base; g > 0 {
		fails++
	}

	if _, err := i.Eval(`func later() int { c := make(chan int); go func() { d := make(chan int); go func() { d <- 20 }(); c <- 1 + <-d }(); return <-c * 2 }`); err != nil {
		panic(err)
	}
	// The interpreter remains usable: channel operations of a later evaluation are not cancelled.
	v, err := i.Eval("later()")
	if err != nil || !v.IsValid() || v.Interface() != 42 {
		fmt.Println("FAIL later plain Eval:", v, err)
		fails++
	} else {
		fmt.Println("later plain Eval:", v)
	}
	v, err = i.EvalWithContext(context.Background(), "later()")
	if err != nil || !v.IsValid() || v.Interface() != 42 {
		fmt.Println("FAIL later EvalWithContext:", v, err)
		fails++
	} else {
		fmt.Println("later EvalWithContext:", v)
	}
	if fails > 0 {
		fmt.Println(fails, "failures")
		os.Exit(1)
	}
	fmt.Println("all ok")
}
