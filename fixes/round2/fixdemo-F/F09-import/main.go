// A source package imported after a cancelled evaluation must be initialised
// (global initialisers and init functions).
package main

import (
	"context"
	"fmt"
	"os"
	"testing/fstest"
	"time"

	"github.com/traefik/yaegi/interp"
	"github.com/traefik/yaegi/stdlib"
)

func main() {
	fsys := fstest.MapFS{
		"src/foo/foo.go": &fstest.MapFile{Data: []byte(`package foo

func mk() map[string]int { return map[string]int{"a": 1} }

var V = mk()
var W int

func init() { W = 7 }

func Clo() func() int { k := 35; return func() int { return k + W } }
`)},
		"src/bar/bar.go": &fstest.MapFile{Data: []byte(`package bar

var V = []int{1, 2, 3}
var W int

func init() { W = len(V) }
`)},
	}
	i := interp.New(interp.Options{GoPath: "./", SourcecodeFilesystem: fsys})
	if err := i.Use(stdlib.Symbols); err != nil {
		panic(err)
	}
	fails := 0
	check := func(src, want string) {
		v, err := i.Eval(src)
		got := fmt.Sprint(v, err)
		if got != want+" <nil>" {
			fails++
			fmt.Println("FAIL", src, "got", got, "want", want)
			return
		}
		fmt.Println("ok  ", src, got)
	}
	if _, err := i.Eval(`import "bar"`); err != nil {
		panic(err)
	}
	check("bar.W", "3")

	ctx, cancel := context.WithTimeout(context.Background(), 100*time.Millisecond)
	defer cancel()
	_, err := i.EvalWithContext(ctx, "for {}")
	fmt.Println("cancelled:", err)

	if _, err := i.Eval(`import "foo"`); err != nil {
		panic(err)
	}
	check("len(foo.V)", "1")
	check("foo.W", "7")
	check("foo.Clo()()", "42")
	check("bar.W + len(bar.V)", "6")
	if fails > 0 {
		os.Exit(1)
	}
	fmt.Println("all ok")
}
