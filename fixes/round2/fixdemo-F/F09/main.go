// F09: a cancellation which arrives while Execute is in a non-last entry of its run list
// (a global initialiser, an init function) must stop the evaluation: the remaining init
// functions and main are not run.
package main

import (
	"context"
	"fmt"
	"os"
	"reflect"
	"strings"
	"sync"
	"time"

	"github.com/traefik/yaegi/interp"
	"github.com/traefik/yaegi/stdlib"
)

type tcase struct {
	name, src, want string
}

var cases = []tcase{
	{name: "spin in global initialiser", want: "global", src: `
package main
import "host"
var g = func() int { host.Mark("global"); for {}; return 1 }()
func init() { host.Mark("init1") }
func init() { host.Mark("init2") }
func main() { host.Mark("main") }
`},
	{name: "spin in a function called by a global initialiser", want: "global", src: `
package main
import "host"
func spin() int { host.Mark("global"); for i := 0; ; i++ {}; return 1 }
var a, b = spin(), other()
func other() int { host.Mark("other"); return 2 }
func init() { host.Mark("init1") }
func main() { host.Mark("main"); go func() { host.Mark("goroutine") }() }
`},
	{name: "spin in first init", want: "global init1", src: `
package main
import "host"
var g = func() int { host.Mark("global"); return 1 }()
func init() { host.Mark("init1"); for {} }
func init() { host.Mark("init2") }
func main() { host.Mark("main") }
`},
	{name: "spin in second init", want: "init1 init2", src: `
package main
import "host"
func init() { host.Mark("init1") }
func init() { host.Mark("init2"); x := 0; for { x++ } }
func init() { host.Mark("init3") }
func main() { host.Mark("main") }
`},
	{name: "blocked receive in global initialiser", want: "global", src: `
package main
import "host"
var never = make(chan int)
var g = func() int { host.Mark("global"); return <-never }()
func init() { host.Mark("init1") }
func main() { host.Mark("main") }
`},
	{name: "blocked select in init", want: "init1", src: `
package main
import "host"
func init() { host.Mark("init1"); select {} }
func init() { host.Mark("init2") }
func main() { host.Mark("main") }
`},
	{name: "sleep in init", want: "init1", src: `
package main
import ("host"; "time")
func init() { host.Mark("init1"); time.Sleep(600*time.Millisecond); host.Mark("after sleep") }
func init() { host.Mark("init2") }
func main() { host.Mark("main") }
`},
	{name: "method and closure in main after a spinning init", want: "init1", src: `
package main
import "host"
type T struct{}
func (T) M() { host.Mark("method") }
func init() { host.Mark("init1"); for {} }
func main() { f := func() { host.Mark("closure") }; f(); T{}.M(); defer host.Mark("deferred") }
`},
	// Controls: the cancellation arrives in main (last entry), or not at all.
	{name: "spin in main", want: "global init1 main", src: `
package main
import "host"
var g = func() int { host.Mark("global"); return 1 }()
func init() { host.Mark("init1") }
func main() { host.Mark("main"); for {}; host.Mark("end") }
`},
	{name: "no cancellation", want: "global init1 init2 main", src: `
package main
import "host"
var g = func() int { host.Mark("global"); return 1 }()
func init() { host.Mark("init1") }
func init() { host.Mark("init2") }
func main() { host.Mark("main") }
`},
}

func run(c tcase, how string) bool {
	var (
		mu    sync.Mutex
		marks []string
	)
	i := interp.New(interp.Options{})
	if err := i.Use(stdlib.Symbols); err != nil {
		panic(err)
	}
	if err := i.Use(interp.Exports{"host/host": {
		"Mark": reflect.ValueOf(func(s string) { mu.Lock(); marks = append(marks, s); mu.Unlock() }),
	}}); err != nil {
		panic(err)
	}
	ctx := context.Background()
	var wantErr error
	if c.name != "no cancellation" {
		var cancel func()
		ctx, cancel = context.WithTimeout(ctx, 200*time.Millisecond)
		defer cancel()
		wantErr = context.DeadlineExceeded
	}
	t0 := time.Now()
	var err error
	switch how {
	case "EvalWithContext":
		_, err = i.EvalWithContext(ctx, c.src)
	case "ExecuteWithContext":
		var p *interp.Program
		if p, err = i.Compile(c.src); err != nil {
			panic(err)
		}
		_, err = i.ExecuteWithContext(ctx, p)
	}
	prompt := time.Since(t0) < 2*time.Second
	// Leave time to the cancelled evaluation to go on, if it does.
	time.Sleep(700 * time.Millisecond)
	mu.Lock()
	got := strings.Join(marks, " ")
	mu.Unlock()
	ok := got == c.want && prompt && err == wantErr
	status := "ok  "
	if !ok {
		status = "FAIL"
	}
	fmt.Printf("%s %-19s %-52s ran: %-24s want: %-24s err: %v\n", status, how, c.name, got, c.want, err)
	return ok
}

func main() {
	fails := 0
	for _, c := range cases {
		for _, how := range []string{"EvalWithContext", "ExecuteWithContext"} {
			if !run(c, how) {
				fails++
			}
		}
	}
	if fails > 0 {
		fmt.Println(fails, "failures")
		os.Exit(1)
	}
	fmt.Println("all ok")
}
