// F26 (companion of fixdemo/F09-2 -mode=plain): the cancellable receive used as a
// condition did not store the received value when the receive had to wait.
// Same output expected from Eval and EvalWithContext: "true false true true".
package main

import (
	"context"
	"fmt"

	"github.com/traefik/yaegi/interp"
	"github.com/traefik/yaegi/stdlib"
)

const src = `package main

import "time"

func send(c chan bool, v bool) { time.Sleep(10 * time.Millisecond); c <- v }

func main() {
	c := make(chan bool)
	go send(c, true)
	a := <-c && true
	go send(c, false)
	b := <-c || false
	go send(c, true)
	d := false
	if <-c {
		d = true
	}
	go send(c, false)
	e := !<-c
	println(a, b, d, e)
}
`

func main() {
	i := interp.New(interp.Options{})
	_ = i.Use(stdlib.Symbols)
	_, err := i.Eval(src)
	fmt.Println("Eval:", err)
	i = interp.New(interp.Options{})
	_ = i.Use(stdlib.Symbols)
	_, err = i.EvalWithContext(context.Background(), src)
	fmt.Println("EvalWithContext:", err)
}
