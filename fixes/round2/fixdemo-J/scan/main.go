// Command scan lists the exported standard library interfaces for which the
// old and the new generics-constraint test of extract.genContent differ, and
// the interface methods whose parameter/result names the F18-7/F18-8 repair renames.
package main

import (
	"fmt"
	"go/constant"
	"go/importer"
	"go/token"
	"go/types"
	"os/exec"
	"strings"
)

func main() {
	out, err := exec.Command("go", "list", "std").Output()
	if err != nil {
		panic(err)
	}
	imp := importer.ForCompiler(token.NewFileSet(), "source", nil)
	n, ni := 0, 0
	for _, path := range strings.Fields(string(out)) {
		if strings.Contains(path, "internal") || strings.HasPrefix(path, "vendor/") {
			continue
		}
		p, err := imp.Import(path)
		if err != nil {
			continue
		}
		n++
		sc := p.Scope()
		named, exported := 0, 0
		for _, name := range sc.Names() {
			o := sc.Lookup(name)
			if !o.Exported() {
				continue
			}
			exported++
			if c, ok := o.(*types.Const); ok {
				if b, ok := c.Type().(*types.Basic); ok && b.Info()&types.IsUntyped != 0 {
					switch c.Val().Kind() {
					case constant.Complex:
						fmt.Println("untyped complex constant:", path, name)
						continue
					case constant.Int, constant.Float, constant.String:
						continue
					}
				}
			}
			named++
		}
		if exported > 0 && named == 0 {
			fmt.Println("no binding names the package:", path)
		}
		if (p.Name() == "os" || p.Name() == "log") && path != p.Name() {
			fmt.Println("package named os or log:", path)
		}
		for _, name := range sc.Names() {
			o, ok := sc.Lookup(name).(*types.TypeName)
			if !ok || !o.Exported() {
				continue
			}
			t, ok := o.Type().Underlying().(*types.Interface)
			if !ok {
				continue
			}
			ni++
			old := t.NumMethods() == 0 && t.NumEmbeddeds() != 0
			if old != !t.IsMethodSet() {
				fmt.Println("constraint test differs:", path, name, t)
			}
			for i := 0; i < t.NumMethods(); i++ {
				f := t.Method(i)
				s := f.Type().(*types.Signature)
				names := map[string]int{}
				blank := false
				for _, tup := range []*types.Tuple{s.Params(), s.Results()} {
					for j := 0; j < tup.Len(); j++ {
						names[tup.At(j).Name()]++
						if tup == s.Params() && tup.At(j).Name() == "_" {
							blank = true
						}
					}
				}
				if blank || names["W"] > 0 {
					fmt.Println("renamed:", path, name, f)
				}
				if f.Name() == "String" && (s.Params().Len() != 0 || s.Results().Len() != 1) {
					fmt.Println("String with another signature:", path, name, f)
				}
			}
		}
	}
	fmt.Println(n, "packages,", ni, "exported interfaces")
}
