// Command stdcmp extracts every standard library package with the extractor
// of the head (oldextract, a copy of HEAD:extract/extract.go) and with the
// patched one, and reports the packages whose generated file differs.
package main

import (
	"bytes"
	"fmt"
	"os/exec"
	"strings"

	"github.com/traefik/yaegi/extract"
	oldextract "scan/stdcmp/oldextract"
)

func main() {
	out, err := exec.Command("go", "list", "std").Output()
	if err != nil {
		panic(err)
	}
	n, diff := 0, 0
	for _, path := range strings.Fields(string(out)) {
		if strings.Contains(path, "internal") || strings.HasPrefix(path, "vendor/") {
			continue
		}
		var a, b bytes.Buffer
		_, errA := (&oldextract.Extractor{Dest: "stdlib"}).Extract(path, "", &a)
		_, errB := (&extract.Extractor{Dest: "stdlib"}).Extract(path, "", &b)
		if (errA == nil) != (errB == nil) {
			fmt.Println("error differs:", path, errA, errB)
			diff++
			continue
		}
		if errA != nil {
			continue
		}
		n++
		if !bytes.Equal(a.Bytes(), b.Bytes()) {
			fmt.Println("output differs:", path)
			diff++
		}
	}
	fmt.Println(n, "packages extracted,", diff, "differ")
}
