package main

import "fmt"

const Z = 1 + 2i

func main() {
	fmt.Println(real(Z), imag(Z))
	fmt.Println(Z*3 == 3+6i)
}
