#!/usr/bin/env python3
"""Writes fixdemo/<id>/cases.jsonl (one extraction case per line, replayed by driver/)."""
import json, os

HERE = os.path.dirname(os.path.abspath(__file__))

INTERP_MAIN = '''package main

import (
	"fmt"
	"os"

	"gen.test/lib"
	"github.com/traefik/yaegi/interp"
	"github.com/traefik/yaegi/stdlib"
)

func main() {
	i := interp.New(interp.Options{})
	if err := i.Use(stdlib.Symbols); err != nil {
		panic(err)
	}
	if err := i.Use(lib.Symbols); err != nil {
		panic(err)
	}
	if _, err := i.Eval(src); err != nil {
		fmt.Println("ERR", err)
		os.Exit(1)
	}
}

const src = `%s`
'''


def case(name, ipath, src, contains=(), absent=(), prog=None, want=None, dest="lib", std=False, files=None):
    d = ipath[len("gen.test/"):] if ipath.startswith("gen.test/") else ipath
    r = {"name": name, "import_path": ipath, "dir": d, "files": {} if std else (files or {"p.go": src}), "dest": dest}
    if contains:
        r["contains"] = list(contains)
    if absent:
        r["absent"] = list(absent)
    if prog is not None:
        # prog is an ordinary Go program: run natively, and by the interpreter over the generated bindings
        r["main"] = INTERP_MAIN % prog
        r["native"] = prog
        r["want"] = want
    if std:
        r["std"] = True
    return r


def emit(id_, cases):
    os.makedirs(os.path.join(HERE, id_), exist_ok=True)
    with open(os.path.join(HERE, id_, "cases.jsonl"), "w") as f:
        for c in cases:
            f.write(json.dumps(c) + "\n")


# ---------------------------------------------------------------- F18-7 / F18-8
emit("F18-7", [
    case("replay", "gen.test/blank", "package blank\n\ntype I interface{ M(_ int, s string) }\n"),
    case("all-blank", "gen.test/blank", "package blank\n\ntype I interface{ M(_ int, _ string) (_ int, err error) }\n"),
    case("blank-variadic", "gen.test/blank", "package blank\n\ntype I interface{ M(_ ...string) int }\n"),
    case("blank-middle", "gen.test/blank",
         "package blank\n\ntype I interface{ M(a int, _ func(_ int) string, c chan<- int) }\n"),
    case("blank-embedded", "gen.test/blank",
         "package blank\n\ntype I interface{ M(_ int) }\n\ntype J interface {\n\tI\n\tN(_, _ int) (_, _ bool)\n}\n"),
    case("blank-imported-type", "gen.test/blank",
         "package blank\n\nimport \"io\"\n\ntype I interface{ M(_ io.Reader, w io.Writer) (_ int64, _ error) }\n"),
    case("blank-then-a0", "gen.test/blank", "package blank\n\ntype I interface{ M(_ int, a0 string) }\n"),
    case("run", "gen.test/blank",
         "package blank\n\ntype I interface{ M(_ int, s string) string }\n\nfunc Call(i I) string { return i.M(7, \"x\") }\n",
         prog='''package main

import (
	"fmt"

	"gen.test/blank"
)

type T struct{ p string }

func (t T) M(i int, s string) string { return fmt.Sprint(t.p, i, s) }

func main() {
	fmt.Println(blank.Call(T{"t"}))
	var i blank.I = T{"u"}
	fmt.Println(i.M(1, "y"))
}
''', want="t7x\nu1y\n"),
])

emit("F18-8", [
    case("replay", "gen.test/clash",
         "package clash\n\ntype I interface {\n\tM(W int)\n\tN(int) (a0 int)\n}\n"),
    case("result-W", "gen.test/clash", "package clash\n\ntype I interface{ M() (W int) }\n"),
    case("param-and-result-W", "gen.test/clash", "package clash\n\ntype I interface{ M(W, w int) (a0 int, a1 error) }\n"),
    case("unnamed-result-a1", "gen.test/clash", "package clash\n\ntype I interface{ M(int, string) (a1 error) }\n"),
    case("variadic-W", "gen.test/clash", "package clash\n\ntype I interface{ M(W ...string) (n int) }\n"),
    case("unnamed-variadic-result-a0", "gen.test/clash", "package clash\n\ntype I interface{ M(...string) (a0, a0_ int) }\n"),
    case("blank-then-a0", "gen.test/clash", "package clash\n\ntype I interface{ M(_ int, a0 string) (a1 int) }\n"),
    case("func-typed-W", "gen.test/clash",
         "package clash\n\ntype I interface{ M(W func(W int) (a0 int), a0 map[string]int) }\n"),
    case("run", "gen.test/clash",
         "package clash\n\ntype I interface {\n\tM(W int) int\n\tN(int, ...int) (a0 int)\n}\n\n"
         "func Call(i I) int { return i.M(3) + i.N(1, 2, 3) }\n",
         prog='''package main

import (
	"fmt"

	"gen.test/clash"
)

type T int

func (t T) M(x int) int { return int(t) * x }

func (t T) N(x int, y ...int) int { return int(t) + x + len(y) }

func main() {
	fmt.Println(clash.Call(T(5)))
	var i clash.I = T(2)
	fmt.Println(i.M(4), i.N(1), i.N(1, 1))
}
''', want="23\n8 3 4\n"),
])

# ---------------------------------------------------------------- F18-12
GUARD = "if W.WString == nil"
emit("F18-12", [
    case("replay", "gen.test/strm", "package strm\n\ntype I interface{ String() (string, error) }\n", absent=[GUARD]),
    case("param", "gen.test/strm", "package strm\n\ntype I interface{ String(i int) string }\n", absent=[GUARD]),
    case("no-result", "gen.test/strm", "package strm\n\ntype I interface{ String() }\n", absent=[GUARD]),
    case("other-result", "gen.test/strm",
         "package strm\n\nimport \"fmt\"\n\ntype I interface{ String() fmt.Stringer }\n", absent=[GUARD]),
    case("variadic", "gen.test/strm", "package strm\n\ntype I interface{ String(...int) string }\n", absent=[GUARD]),
    case("bytes-result", "gen.test/strm", "package strm\n\ntype I interface{ String() []byte }\n", absent=[GUARD]),
    case("stringer", "gen.test/strm", "package strm\n\ntype I interface{ String() string }\n", contains=[GUARD]),
    case("stringer-named-result", "gen.test/strm", "package strm\n\ntype I interface{ String() (s string) }\n",
         contains=[GUARD]),
    case("stringer-embedded", "gen.test/strm",
         "package strm\n\nimport \"fmt\"\n\ntype I interface {\n\tfmt.Stringer\n\tN() int\n}\n", contains=[GUARD]),
    case("defined-string-result", "gen.test/strm",
         "package strm\n\nimport \"html/template\"\n\ntype I interface{ String() template.HTML }\n"),
    case("run", "gen.test/strm",
         "package strm\n\nimport \"fmt\"\n\ntype I interface{ String() (string, error) }\n\n"
         "type S interface{ String() string }\n\n"
         "func Call(i I) string { s, err := i.String(); return fmt.Sprint(s, err) }\n\n"
         "func Show(s S) string { return fmt.Sprintf(\"%v|%s\", s, s.String()) }\n",
         prog='''package main

import (
	"errors"
	"fmt"

	"gen.test/strm"
)

type T struct{ n int }

func (t T) String() (string, error) { return fmt.Sprint("T", t.n), errors.New("e") }

type U struct{ n int }

func (u U) String() string { return fmt.Sprint("U", u.n) }

func main() {
	fmt.Println(strm.Call(T{1}))
	fmt.Println(strm.Show(U{2}))
}
''', want="T1e\nU2|U2\n"),
])

# ---------------------------------------------------------------- F18-15
IMP = '"gen.test/consts"'
emit("F18-15", [
    case("replay", "gen.test/consts", "package consts\n\nconst Version = \"1.2.3\"\n\nconst Max = 1 << 40\n", absent=[IMP]),
    case("int-only", "gen.test/consts", "package consts\n\nconst (\n\tA = iota\n\tB\n\tC\n)\n", absent=[IMP]),
    case("float-only", "gen.test/consts", "package consts\n\nconst Pi = 3.14159\n\nconst Huge = 1e400\n", absent=[IMP]),
    case("rune-only", "gen.test/consts", "package consts\n\nconst R = 'a'\n", absent=[IMP]),
    case("unexported-rest", "gen.test/consts",
         "package consts\n\nconst V = \"v\"\n\ntype t int\n\nvar x t\n\nfunc f() t { return x }\n\nfunc init() { _ = f() }\n",
         absent=[IMP]),
    case("nothing-exported", "gen.test/consts", "package consts\n\nconst v = 1\n", absent=[IMP]),
    case("typed-const", "gen.test/consts", "package consts\n\nconst V = \"v\"\n\nconst T int = 3\n", contains=[IMP]),
    case("bool-const", "gen.test/consts", "package consts\n\nconst V = \"v\"\n\nconst B = true\n", contains=[IMP]),
    case("with-func", "gen.test/consts", "package consts\n\nconst V = \"v\"\n\nfunc F() {}\n", contains=[IMP]),
    case("with-var", "gen.test/consts", "package consts\n\nconst V = 1\n\nvar X = V\n", contains=[IMP]),
    case("with-type", "gen.test/consts", "package consts\n\nconst V = 1\n\ntype T struct{}\n", contains=[IMP]),
    case("with-interface", "gen.test/consts", "package consts\n\nconst V = 1\n\ntype I interface{ M() }\n", contains=[IMP]),
    case("run", "gen.test/consts",
         "package consts\n\nconst Version = \"1.2.3\"\n\nconst Max = 1 << 40\n\nconst Huge = 1e400\n",
         prog='''package main

import (
	"fmt"

	"gen.test/consts"
)

func main() {
	fmt.Println(consts.Version, consts.Max>>38, consts.Huge/1e399)
	var u uint64 = consts.Max
	fmt.Println(u, len(consts.Version))
}
''', want="1.2.3 4 10\n1099511627776 5\n"),
])

# ---------------------------------------------------------------- F18-4 / F18-5
emit("F18-4", [
    case("replay", "gen.test/emb", "package emb\n\ntype E interface{ any }\n",
         contains=['"E": reflect.ValueOf((*emb.E)(nil))', '"_E": reflect.ValueOf((*_gen_test_emb_E)(nil))']),
    case("two-empty", "gen.test/emb", "package emb\n\ntype E interface {\n\tany\n\tinterface{}\n}\n",
         contains=['"E":', '"_E":']),
    case("named-empty", "gen.test/emb", "package emb\n\ntype Empty interface{}\n\ntype E interface{ Empty }\n",
         contains=['"E":', '"_E":', '"Empty":', '"_Empty":']),
    case("nested-empty", "gen.test/emb", "package emb\n\ntype E interface{ interface{ interface{ any } } }\n",
         contains=['"E":', '"_E":']),
    case("alias-empty", "gen.test/emb", "package emb\n\ntype E = interface{ any }\n", contains=['"E":', '"_E":']),
    case("embedded-methods", "gen.test/emb",
         "package emb\n\nimport \"fmt\"\n\ntype E interface {\n\tany\n\tfmt.Stringer\n}\n",
         contains=['"E":', '"_E":', "WString func() string"]),
    case("union-unchanged", "gen.test/emb", "package emb\n\ntype U interface{ int | string }\n\nfunc F() {}\n",
         absent=['"U":', '"_U":']),
    case("tilde-unchanged", "gen.test/emb", "package emb\n\ntype U interface{ ~int }\n\nfunc F() {}\n",
         absent=['"U":', '"_U":']),
    case("comparable-unchanged", "gen.test/emb", "package emb\n\ntype U interface{ comparable }\n\nfunc F() {}\n",
         absent=['"U":', '"_U":']),
    case("run", "gen.test/emb",
         "package emb\n\nimport \"fmt\"\n\ntype E interface{ any }\n\nfunc Show(e E) string { return fmt.Sprintf(\"%v\", e) }\n\n"
         "var V E = 3\n",
         prog='''package main

import (
	"fmt"

	"gen.test/emb"
)

func main() {
	var e emb.E = "s"
	fmt.Println(emb.Show(e), emb.Show(4), emb.V)
	m := map[emb.E]int{1: 2}
	fmt.Println(m[1])
}
''', want="s 4 3\n2\n"),
])

emit("F18-5", [
    case("replay", "gen.test/cons", "package cons\n\ntype C interface {\n\t~int\n\tString() string\n}\n\nfunc F() {}\n",
         absent=['"C":', '"_C":']),
    case("comparable-method", "gen.test/cons", "package cons\n\ntype C interface {\n\tcomparable\n\tM()\n}\n\nfunc F() {}\n",
         absent=['"C":', '"_C":']),
    case("union-method", "gen.test/cons",
         "package cons\n\ntype C interface {\n\tint | ~string\n\tM(x int) int\n}\n\nfunc F() {}\n", absent=['"C":', '"_C":']),
    case("embedded-constraint", "gen.test/cons",
         "package cons\n\ntype c interface{ ~int | ~uint }\n\ntype C interface {\n\tc\n\tM()\n}\n\nfunc F() {}\n",
         absent=['"C":', '"_C":']),
    case("embedded-exported-constraint", "gen.test/cons",
         "package cons\n\nimport \"fmt\"\n\ntype K interface{ comparable }\n\ntype C interface {\n\tK\n\tfmt.Stringer\n}\n\n"
         "type I interface{ fmt.Stringer }\n",
         absent=['"C":', '"_C":', '"K":'], contains=['"I":', '"_I":']),
    case("single-type-term", "gen.test/cons", "package cons\n\ntype C interface {\n\tint\n\tM()\n}\n\nfunc F() {}\n",
         absent=['"C":', '"_C":']),
    case("alias-constraint", "gen.test/cons",
         "package cons\n\ntype C = interface {\n\t~float64\n\tM()\n}\n\nfunc F() {}\n", absent=['"C":', '"_C":']),
    case("used-by-generic", "gen.test/cons",
         "package cons\n\ntype C interface {\n\t~int\n\tString() string\n}\n\nfunc G[T C](t T) string { return t.String() }\n\n"
         "type I interface{ String() string }\n\nfunc F(i I) string { return i.String() }\n",
         absent=['"C":', '"_C":', '"G":'], contains=['"I":', '"F":']),
])

# ---------------------------------------------------------------- F18-2
emit("F18-2", [
    case("replay", "gen.test/cplx", "package cplx\n\nfunc F() {}\n\nconst C = 0.1i\n\nconst Big = 1e400i\n",
         absent=["cplx.C", "cplx.Big"]),
    case("real-and-imag", "gen.test/cplx", "package cplx\n\nfunc F() {}\n\nconst Z = 1 + 2i\n\nconst Q = 1.5 - 0.25i\n",
         absent=["cplx.Z", "cplx.Q"]),
    case("product", "gen.test/cplx", "package cplx\n\nfunc F() {}\n\nconst P = (1 + 2i) * (3 - 4i)\n\nconst M = 1i * 1i\n",
         absent=["cplx.P"]),
    case("huge-real-part", "gen.test/cplx", "package cplx\n\nfunc F() {}\n\nconst H = 1e500 + 1e-500i\n", absent=["cplx.H"]),
    case("rational-parts", "gen.test/cplx", "package cplx\n\nfunc F() {}\n\nconst R = (1 + 1i) / 3\n", absent=["cplx.R"]),
    case("typed-unchanged", "gen.test/cplx",
         "package cplx\n\nfunc F() {}\n\nconst T complex64 = 1 + 2i\n\nconst U complex128 = 0.5i\n",
         contains=["reflect.ValueOf(cplx.T)", "reflect.ValueOf(cplx.U)"]),
    case("run", "gen.test/cplx",
         "package cplx\n\nfunc F() {}\n\nconst C = 0.1i\n\nconst Big = 1e400i\n\nconst Z = 1 + 2i\n\nconst R = (1 + 1i) / 3\n",
         prog='''package main

import (
	"fmt"

	"gen.test/cplx"
)

func main() {
	var c complex128 = cplx.C
	fmt.Println(c, cplx.Z, cplx.Z+1, cplx.Z-2i)
	fmt.Println(cplx.C*3 == 0.3i, cplx.R*3 == 1+1i)
	fmt.Println(cplx.Big / 1e399i)
	var f complex64 = cplx.Z * cplx.Z
	fmt.Println(f)
}
''', want="(0+0.1i) (1+2i) (2+2i) (1+0i)\ntrue true\n(10+0i)\n(-3+4i)\n"),
])

# ---------------------------------------------------------------- F18-14
emit("F18-14", [
    case("replay", "gen.test/c++/lib", "package lib2\n\ntype I interface{ M() }\n", dest="lib",
         contains=["_gen_test_c___lib_I"]),
    case("plus-last", "gen.test/a+b", "package ab\n\ntype I interface{ M() }\n\ntype J interface{ N(i int) int }\n",
         contains=["_gen_test_a_b_I", "_gen_test_a_b_J"]),
    case("mixed", "gen.test/g+/x-y.z~w", "package w\n\ntype I interface{ M() }\n", contains=["_gen_test_g__x_y_z_w_I"]),
    case("several-plus", "gen.test/x+y+/z+", "package pp\n\ntype I interface{ M() }\n", contains=["_gen_test_x_y__z__I"]),
    case("digits-unchanged", "gen.test/v2/x_1", "package x\n\ntype I interface{ M() }\n", contains=["_gen_test_v2_x_1_I"]),
    case("no-interface", "gen.test/c++/lib", "package lib2\n\nfunc F() {}\n"),
    case("run", "gen.test/c++/lib", "package lib2\n\ntype I interface{ M() int }\n\nfunc Call(i I) int { return i.M() + 1 }\n",
         prog='''package main

import (
	"fmt"

	lib2 "gen.test/c++/lib"
)

type T int

func (t T) M() int { return int(t) }

func main() {
	fmt.Println(lib2.Call(T(41)))
}
''', want="42\n"),
])

# ---------------------------------------------------------------- F18-3
emit("F18-3", [
    case("replay", "gen.test/x/log", "package log\n\nfunc Fatal(args ...interface{}) {}\n",
         contains=["reflect.ValueOf(log.Fatal)"]),
    case("os", "gen.test/os", "package os\n\nfunc Exit(code int) {}\n\nfunc FindProcess(pid int) (int, error) { return pid, nil }\n",
         contains=["reflect.ValueOf(os.Exit)", "reflect.ValueOf(os.FindProcess)"]),
    case("log-all", "gen.test/log",
         "package log\n\ntype Logger struct{}\n\nfunc New() *Logger { return nil }\n\nfunc Fatal() {}\n\nfunc Fatalf() {}\n\nfunc Fatalln() {}\n",
         contains=["reflect.ValueOf(log.New)", "reflect.ValueOf((*log.Logger)(nil))", "reflect.ValueOf(log.Fatalf)",
                   "reflect.ValueOf(log.Fatalln)"]),
    case("name-differs-from-dir", "gen.test/myos", "package os\n\nvar Exit = 3\n\nconst FindProcess = \"x\"\n",
         contains=["reflect.ValueOf(&os.Exit).Elem()"]),
    case("deep", "gen.test/a/b/os", "package os\n\ntype Exit struct{}\n\ntype FindProcess interface{ M() }\n",
         contains=["(*os.Exit)(nil)", "(*os.FindProcess)(nil)"]),
    case("stdlib-os-unchanged", "os", "", std=True, dest="stdlib",
         contains=['"Exit":                reflect.ValueOf(osExit)', '"FindProcess":         reflect.ValueOf(osFindProcess)',
                   '"Getpid":              reflect.ValueOf(os.Getpid)']),
    case("stdlib-log-unchanged", "log", "", std=True, dest="stdlib",
         contains=['reflect.ValueOf(logFatal)', 'reflect.ValueOf(logFatalf)', 'reflect.ValueOf(logFatalln)',
                   'reflect.ValueOf(logNew)', 'reflect.ValueOf((*logLogger)(nil))']),
    case("run", "gen.test/x/log", "package log\n\nimport \"fmt\"\n\nfunc Fatal(args ...interface{}) string { return fmt.Sprint(args...) }\n",
         prog='''package main

import (
	"fmt"

	"gen.test/x/log"
)

func main() {
	fmt.Println(log.Fatal("a", 1))
}
''', want="a1\n"),
])

# ---------------------------------------------------------------- cases which need several repairs
emit("combined", [
    # F18-2 + F18-15: only untyped complex constants
    case("complex-only", "gen.test/cplx", "package cplx\n\nconst C = 0.1i\n\nconst Big = 1e400i\n", absent=['"gen.test/cplx"']),
    # F18-3 + F18-15: only a symbol which has the name of a restricted one
    case("log-fatal-only", "gen.test/x/log", "package log\n\nfunc Fatal(args ...interface{}) {}\n",
         contains=['"gen.test/x/log"', "reflect.ValueOf(log.Fatal)"]),
    # F18-7/8 + F18-12 + F18-14 + F18-4
    case("all-wrappers", "gen.test/c++/lib",
         "package lib2\n\ntype E interface{ any }\n\ntype I interface {\n\tString(_ int, W string) (a0 string, err error)\n}\n\n"
         "type C interface {\n\t~int\n\tString() string\n}\n\nconst K = 2i\n",
         contains=['"E":', '"_I":'], absent=['"C":', "if W.WString == nil"]),
])
