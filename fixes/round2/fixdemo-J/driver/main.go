// Command driver replays extraction cases: for every JSON record of the cases
// file it writes the package into a scratch module gen.test, runs
// extract.Extractor on it, writes the generated file into package <dest> and
// compiles (go vet) the module. An optional "main" program is run and its
// output compared with "want"; "contains"/"absent" are checked on the
// generated source; "extract_error" expects Extract to fail.
package main

import (
	"bufio"
	"bytes"
	"encoding/json"
	"flag"
	"fmt"
	"os"
	"os/exec"
	"path/filepath"
	"strings"

	"github.com/traefik/yaegi/extract"
)

type rec struct {
	Name       string            `json:"name"`
	ImportPath string            `json:"import_path"`
	Dir        string            `json:"dir"`
	Files      map[string]string `json:"files"`
	Dest       string            `json:"dest"`
	Contains   []string          `json:"contains"`
	Absent     []string          `json:"absent"`
	Main       string            `json:"main"`
	Want       string            `json:"want"`
	Native     string            `json:"native"` // native program: its output must equal the output of main
	Std        bool              `json:"std"`    // import_path is a standard library package: only contains/absent are checked
}

var (
	show = flag.Bool("show", false, "print the generated files")
	yaegi = flag.String("yaegi", "/tmp/fixwt2-J", "yaegi checkout")
)

func main() {
	flag.Parse()
	fail := 0
	for _, fn := range flag.Args() {
		f, err := os.Open(fn)
		if err != nil {
			panic(err)
		}
		sc := bufio.NewScanner(f)
		sc.Buffer(nil, 1<<20)
		for sc.Scan() {
			l := strings.TrimSpace(sc.Text())
			if l == "" || strings.HasPrefix(l, "#") {
				continue
			}
			var r rec
			if err := json.Unmarshal([]byte(l), &r); err != nil {
				panic(fmt.Sprintf("%s: %v: %s", fn, err, l))
			}
			if msg := run(r); msg != "" {
				fail++
				fmt.Printf("FAIL %s/%s: %s\n", filepath.Base(filepath.Dir(fn)), r.Name, msg)
			} else {
				fmt.Printf("ok   %s/%s\n", filepath.Base(filepath.Dir(fn)), r.Name)
			}
		}
		f.Close()
	}
	if fail > 0 {
		fmt.Printf("%d FAILED\n", fail)
		os.Exit(1)
	}
}

func run(r rec) string {
	root, err := os.MkdirTemp("", "fixJ")
	if err != nil {
		panic(err)
	}
	defer os.RemoveAll(root)
	if r.Dest == "" {
		r.Dest = "lib"
	}
	write := func(name, content string) {
		p := filepath.Join(root, name)
		if err := os.MkdirAll(filepath.Dir(p), 0o755); err != nil {
			panic(err)
		}
		if err := os.WriteFile(p, []byte(content), 0o644); err != nil {
			panic(err)
		}
	}
	write("go.mod", "module gen.test\n\ngo 1.21\n\nrequire github.com/traefik/yaegi v0.0.0\n\nreplace github.com/traefik/yaegi => "+*yaegi+"\n")
	for n, c := range r.Files {
		write(filepath.Join(r.Dir, n), c)
	}
	write(filepath.Join(r.Dest, "symbols.go"), "package "+r.Dest+"\n\nimport \"reflect\"\n\nvar Symbols = map[string]map[string]reflect.Value{}\n")

	cwd, _ := os.Getwd()
	if err := os.Chdir(root); err != nil {
		panic(err)
	}
	var out bytes.Buffer
	ext := extract.Extractor{Dest: r.Dest}
	if r.Std {
		_, err = ext.Extract(r.ImportPath, "", &out)
	} else {
		_, err = ext.Extract("./"+r.Dir, r.ImportPath, &out)
	}
	_ = os.Chdir(cwd)
	if err != nil {
		return "extract: " + firstLines(err.Error(), 3)
	}
	if *show {
		fmt.Println(out.String())
	}
	write(filepath.Join(r.Dest, "gen.go"), out.String())
	for _, s := range r.Contains {
		if !strings.Contains(out.String(), s) {
			return fmt.Sprintf("generated file lacks %q", s)
		}
	}
	for _, s := range r.Absent {
		if strings.Contains(out.String(), s) {
			return fmt.Sprintf("generated file has %q", s)
		}
	}
	if r.Std {
		return ""
	}
	if r.Main != "" {
		write("main/main.go", r.Main)
	}
	if r.Native != "" {
		write("native/main.go", r.Native)
	}
	cmd := exec.Command("go", "vet", "./...")
	cmd.Dir = root
	if b, err := cmd.CombinedOutput(); err != nil {
		return "go vet: " + firstLines(string(b), 6)
	}
	if r.Main != "" {
		cmd := exec.Command("go", "run", "./main")
		cmd.Dir = root
		b, err := cmd.CombinedOutput()
		if err != nil {
			return "go run: " + firstLines(string(b), 8)
		}
		if string(b) != r.Want {
			return fmt.Sprintf("output %q, want %q", b, r.Want)
		}
		if r.Native != "" {
			cmd := exec.Command("go", "run", "./native")
			cmd.Dir = root
			nb, err := cmd.CombinedOutput()
			if err != nil {
				return "go run native: " + firstLines(string(nb), 8)
			}
			if string(nb) != string(b) {
				return fmt.Sprintf("interpreter output %q, native output %q", b, nb)
			}
		}
	}
	return ""
}

func firstLines(s string, n int) string {
	l := strings.Split(strings.TrimSpace(s), "\n")
	if len(l) > n {
		l = l[:n]
	}
	return strings.Join(l, " | ")
}
