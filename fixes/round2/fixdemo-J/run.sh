#!/bin/sh
# usage: run.sh [-show] [id ...]   (rebuilds the driver against the worktree, then replays fixdemo/<id>/cases.jsonl)
export GOFLAGS=-mod=mod GOPROXY=off GOSUMDB=off GOTOOLCHAIN=local
here=$(cd "$(dirname "$0")" && pwd)
(cd "$here/driver" && go build -o driver .) || exit 2
flags=
if [ "$1" = "-show" ]; then flags=-show; shift; fi
if [ $# -eq 0 ]; then set -- $(cd "$here" && ls -d F18-* combined); fi
files=
for id in "$@"; do files="$files $here/$id/cases.jsonl"; done
exec "$here/driver/driver" $flags $files
