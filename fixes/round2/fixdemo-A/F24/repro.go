package main

import "fmt"

func main() {
	for i := 0; i < 10; i++ {
		if i == 2 {
			i = 8
		}
		fmt.Println(i)
	}
}
