package main

import "fmt"

// continue, labelled continue, nested loops, decrementing, assignment ops.
func main() {
	for i := 0; i < 20; i++ {
		if i%2 == 0 {
			i += 3
			continue
		}
		fmt.Println("a", i)
	}
Outer:
	for i := 0; i < 10; i++ {
		for j := 0; j < 10; j++ {
			if j == 1 {
				i += 2
				continue Outer
			}
			j++
			fmt.Println("b", i, j)
		}
	}
	for i := 10; i > 0; i-- {
		i--
		fmt.Println("c", i)
	}
	for i := 1; i < 100; i *= 2 {
		i++
		fmt.Println("d", i)
	}
}
