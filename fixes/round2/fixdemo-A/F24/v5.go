package main

import "fmt"

// In functions, closures, methods; recursion; loop variable shadowing; goroutines.
type T struct{ n int }

func (t T) run() (r []int) {
	for i := 0; i < t.n; i++ {
		if i == 1 {
			i++
		}
		r = append(r, i)
	}
	return r
}

func rec(d int) int {
	s := 0
	for i := 0; i < 4; i++ {
		if d > 0 {
			s += rec(d - 1)
		}
		i++
		s += i
	}
	return s
}

func main() {
	fmt.Println(T{6}.run())
	fmt.Println(rec(2))
	f := func() {
		for i := 0; i < 3; i++ {
			for i := i * 10; i < 100; i += 30 {
				i += 5
				fmt.Println("inner", i)
			}
			i++
			fmt.Println("outer", i)
		}
	}
	f()
	done := make(chan int)
	for i := 0; i < 6; i++ {
		i++
		go func() { done <- i }()
		fmt.Println("go", <-done)
	}
	i := 100
	for i := 0; i < 3; i++ {
		i = i + 1
	}
	fmt.Println(i)
}
