package main

import "fmt"

// Two loop variables, break, goto inside the body, switch in the body.
func main() {
	for i, j := 0, 10; i < j; i, j = i+1, j-1 {
		if i == 1 {
			i = 3
			j = 8
		}
		fmt.Println("ij", i, j)
	}
	n := 0
	for i := 0; i < 5; i++ {
		n += i
	}
	fmt.Println("n", n)
	for i := 0; i < 10; i++ {
		if i == 1 {
			i = 5
			goto Next
		}
		if i == 7 {
			i = 100
			break
		}
	Next:
		fmt.Println("g", i)
	}
	for i := 0; i < 10; i++ {
		switch i {
		case 1:
			i = 4
			continue
		case 6:
			i++
		default:
		}
		fmt.Println("sw", i)
	}
}
