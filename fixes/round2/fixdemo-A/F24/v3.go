package main

import "fmt"

type P struct{ X, Y int }

func start() int { return 2 }

// Other types of loop variable: string, float, struct, pointer, slice, call result, interface.
func main() {
	for s := ""; len(s) < 6; s += "a" {
		if s == "aa" {
			s = "bbbb"
		}
		fmt.Println("s", s)
	}
	for f := 0.5; f < 10; f *= 2 {
		if f == 2 {
			f = 4.5
		}
		fmt.Println("f", f)
	}
	for p := (P{0, 0}); p.X < 5; p.X++ {
		p.Y = p.X * 2
		if p.X == 1 {
			p = P{3, 9}
		}
		fmt.Println("p", p)
	}
	for p := (&P{}); p.X < 5; p.X++ {
		if p.X == 1 {
			p = &P{3, 9}
		}
		fmt.Println("pp", *p)
	}
	for l := []int{}; len(l) < 5; l = append(l, 0) {
		if len(l) == 1 {
			l = []int{1, 2, 3}
		}
		fmt.Println("l", l)
	}
	for i := start(); i < 8; i++ {
		if i == 3 {
			i = 6
		}
		fmt.Println("c", i)
	}
	for v := interface{}(0); v != nil; v = nil {
		v = "x"
		fmt.Println("v", v)
	}
	for i := uint8(250); i > 3; i++ {
		if i == 252 {
			i = 255
		}
		fmt.Println("u", i)
	}
}
