package main

import "fmt"

// Closures keep per-iteration variables (Go 1.22), including body modifications.
func main() {
	var fs []func() int
	for i := 0; i < 6; i++ {
		if i == 1 {
			i = 3
		}
		fs = append(fs, func() int { return i })
	}
	for _, f := range fs {
		fmt.Print(f(), " ")
	}
	fmt.Println()

	var ps []*int
	for i := 0; i < 4; i++ {
		ps = append(ps, &i)
		i++
	}
	for _, p := range ps {
		fmt.Print(*p, " ")
	}
	fmt.Println()

	var gs []func()
	for i := 0; i < 3; i++ {
		gs = append(gs, func() { i += 10; fmt.Print(i, " ") })
	}
	for _, g := range gs {
		g()
		g()
	}
	fmt.Println()
}
