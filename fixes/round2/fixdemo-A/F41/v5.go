package main

import "fmt"

// Nested switches, break, switch inside a loop with continue, default in the middle.
func main() {
	for i := 0; i < 6; i++ {
		switch i {
		case 0:
			fmt.Println(i, "zero")
			continue
		default:
			switch j := i * 2; {
			default:
				fmt.Println(i, "inner default")
			case j > 8:
				fmt.Println(i, "big")
			case j > 4:
				fmt.Println(i, "medium")
			}
			if i == 5 {
				break
			}
			fallthrough
		case 1:
			fmt.Println(i, "one-or-ft")
		case 2:
			fmt.Println(i, "two")
			switch i {
			default:
				fmt.Println(i, "nested default first")
				fallthrough
			case 9:
				fmt.Println(i, "nine")
			case 2:
				fmt.Println(i, "nested two")
			}
		}
		fmt.Println(i, "after")
	}
	e := 3.5
	switch e {
	default:
		fmt.Println("iface default")
	case 3.5:
		fmt.Println("iface 3.5")
	case 2.5:
		fmt.Println("iface 2.5")
	}
}
