package main

import "fmt"

var calls []string

func k(s string, v int) int { calls = append(calls, s); return v }

// Case expressions are evaluated in source order, and only until a match.
func f(x int) {
	calls = nil
	switch x {
	default:
		calls = append(calls, "default")
	case k("a", 1):
		calls = append(calls, "A")
	case k("b", 2):
		calls = append(calls, "B")
	case k("c", 4):
		calls = append(calls, "C")
	}
	fmt.Println(x, calls)
}

func g(x int) {
	calls = nil
	switch x {
	case k("a", 1):
		calls = append(calls, "A")
	default:
		calls = append(calls, "default")
	case k("b", 2):
		calls = append(calls, "B")
	case k("c", 4):
		calls = append(calls, "C")
	}
	fmt.Println(x, calls)
}

func main() {
	for i := 0; i < 6; i++ {
		f(i)
		g(i)
	}
}
