package main

import "fmt"

// strings, init statement, empty default, empty clauses, only default.
func f(s string) string {
	r := ""
	switch t := s + "!"; t {
	case "a!":
		r += "A"
	default:
	case "b!":
		r += "B"
		fallthrough
	case "c!":
		r += "C"
	}
	return r
}

func g(x int) string {
	r := ""
	switch x {
	default:
		r += "d"
	}
	switch x {
	case 1:
	default:
		r += "D"
		fallthrough
	case 2:
	case 3:
		r += "3"
	}
	switch x {
	default:
		fallthrough
	case 7:
		r += "7"
	}
	return r
}

func main() {
	for _, s := range []string{"a", "b", "c", "z"} {
		fmt.Printf("%q ", f(s))
	}
	fmt.Println()
	for i := 0; i < 5; i++ {
		fmt.Printf("%q ", g(i))
	}
	fmt.Println()
}
