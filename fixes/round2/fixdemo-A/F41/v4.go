package main

import (
	"bytes"
	"fmt"
	"io"
	"strings"
)

// Overlapping interface clauses in a type switch: the first in source order wins.
func f(v interface{}) string {
	switch v.(type) {
	default:
		return "default"
	case int:
		return "int"
	case string, bool:
		return "string-bool"
	case *strings.Reader:
		return "*Reader"
	}
}

func g(v interface{}) string {
	switch x := v.(type) {
	case nil:
		return "nil"
	default:
		return fmt.Sprintf("default %v", x)
	case io.Writer:
		return "Writer"
	case fmt.Stringer:
		return "Stringer " + x.String()
	case int, int64:
		return fmt.Sprintf("int %v", x)
	case io.Reader:
		return "Reader"
	}
}

func h(v interface{}) string {
	switch x := v.(type) {
	case string:
		return "string " + x
	default:
		return fmt.Sprintf("default %T", x)
	case io.ReadWriter:
		return "ReadWriter"
	case io.Reader:
		return "Reader"
	case bool:
		return "bool"
	}
}

func main() {
	var sb strings.Builder
	vals := []interface{}{nil, 1, int64(2), "s", true, 1.5, strings.NewReader("x"), bytes.NewBufferString("b"), &sb}
	for _, v := range vals {
		fmt.Printf("%T: %s | %s | %s\n", v, f(v), g(v), h(v))
	}
}
