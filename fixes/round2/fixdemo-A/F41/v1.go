package main

import "fmt"

// default first, in the middle, last; fallthrough into and out of default.
func f(x int) {
	switch x {
	default:
		fmt.Println(x, "default-first")
		fallthrough
	case 1:
		fmt.Println(x, "one")
	case 2:
		fmt.Println(x, "two")
		fallthrough
	case 3:
		fmt.Println(x, "three")
	}
}

func g(x int) {
	switch x {
	case 1:
		fmt.Println(x, "one")
		fallthrough
	default:
		fmt.Println(x, "default-mid")
	case 2:
		fmt.Println(x, "two")
	case 3, 4:
		fmt.Println(x, "three-four")
		fallthrough
	case 5:
		fmt.Println(x, "five")
	}
}

func h(x int) {
	switch x {
	case 1:
		fmt.Println(x, "one")
	case 2:
		fmt.Println(x, "two")
		fallthrough
	default:
		fmt.Println(x, "default-last")
	}
}

func main() {
	for i := 0; i < 7; i++ {
		f(i)
		g(i)
		h(i)
	}
}
