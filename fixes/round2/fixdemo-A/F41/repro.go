package main

import "fmt"

func main() {
	x := 3
	switch x % 4 {
	case 1:
		fmt.Println("1")
	default:
		fmt.Println("d")
		fallthrough
	case 2:
		fmt.Println("2")
	}
	fmt.Println("end")
}
