package main

import "fmt"

var n int

func next() bool { n++; return n < 5 }

func count(s string) (c int) {
	for range s {
	}
	for i := 0; i < len(s); i++ {
	}
	for _, r := range s {
		c += int(r - 'a')
	}
	return c
}

func main() {
	for ok := next(); ok; ok = next() {
	}
	fmt.Println("n", n)
	m := map[string]int{"a": 1}
	for k, v := range m {
		_, _ = k, v
	}
	for k := range m {
		_ = k
	}
	for range 3 {
	}
	for i := range 3 {
		_ = i
	}
	fmt.Println(count("abc"))
Outer:
	for i := 0; i < 3; i++ {
		for j := 0; j < 3; j++ {
		}
		for range []int{1} {
		}
		if i == 1 {
			break Outer
		}
		fmt.Println("i", i)
	}
	c := make(chan int, 2)
	c <- 1
	c <- 2
	close(c)
	for range c {
	}
	f := func() int {
		for i := 0; i < 2; i++ {
		}
		return 7
	}
	fmt.Println(f())
}
