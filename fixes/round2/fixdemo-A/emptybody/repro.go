package main

import "fmt"

func main() {
	for i := 0; i < 5; i++ {
	}
	fmt.Println("end")
}
