package main

import "fmt"

func main() {
	s := []int{1, 2}
	for range s {
	}
	fmt.Println("after range")
	for _, v := range s {
		_ = v
	}
	fmt.Println("after range 2")
	for i := 0; i < 5; i++ {
		continue
	}
	fmt.Println("after continue-only")
	for i := range s {
		_ = i
	}
	fmt.Println("after range i")
	for i := 0; i < 5; i++ {
	}
	fmt.Println("end")
}
