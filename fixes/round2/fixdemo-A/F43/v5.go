package main

import "fmt"

// Labels outside clauses keep working; goto from a clause to a label of the enclosing block.
func main() {
	n := 0
Top:
	n++
	switch {
	case n < 3:
		goto Top
	case n == 3:
		fmt.Println("three")
		goto Out
	}
	fmt.Println("not reached")
Out:
	fmt.Println("out", n)

Outer:
	for i := 0; i < 3; i++ {
		switch i {
		case 1:
			continue Outer
		case 2:
		Inner:
			for j := 0; j < 5; j++ {
				switch j {
				case 1:
					continue Inner
				case 3:
					break Outer
				}
				fmt.Println("j", j)
			}
		}
		fmt.Println("i", i)
	}
}
