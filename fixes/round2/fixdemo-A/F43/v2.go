package main

import "fmt"

// Backward and forward goto in clause bodies, type switch clauses.
func f(v interface{}) {
	switch t := v.(type) {
	case int:
		n := 0
	Again:
		n++
		if n < t {
			goto Again
		}
		fmt.Println("int", n)
	case string:
		if t == "" {
			goto Empty
		}
		fmt.Println("string", t)
		return
	Empty:
		fmt.Println("empty string")
	default:
		goto D
	D:
		fmt.Println("default")
	}
}

func main() {
	f(3)
	f("a")
	f("")
	f(1.5)
}
