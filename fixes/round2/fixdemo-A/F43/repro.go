package main

import "fmt"

func main() {
	x := 2
	switch x {
	case 2:
		if x > 1 {
			goto L
		}
		fmt.Println("skipped")
	L:
		fmt.Println("L")
	}
	fmt.Println("end")
}
