package main

import "fmt"

// Labels in select clauses.
func main() {
	c := make(chan int, 1)
	c <- 1
	select {
	case v := <-c:
		if v == 1 {
			goto L
		}
		fmt.Println("skipped")
	L:
		fmt.Println("L", v)
	}
	select {
	case v := <-c:
		fmt.Println("unexpected", v)
	default:
	Loop:
		for i := 0; i < 3; i++ {
			for {
				if i == 1 {
					break Loop
				}
				continue Loop
			}
		}
		fmt.Println("default done")
	}
}
