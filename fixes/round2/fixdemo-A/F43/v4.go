package main

import "fmt"

// Same label name in two functions, label in clause of a nested switch, labelled switch and block.
func a(x int) {
	switch x {
	case 1:
		switch {
		case x > 0:
			goto L
		L:
			fmt.Println("a inner L")
		}
		goto M
	M:
		fmt.Println("a M")
	}
}

func b(x int) {
	switch x {
	case 1:
	L:
		switch {
		default:
			if x == 1 {
				break L
			}
			fmt.Println("not reached")
		}
		fmt.Println("b after L")
	B:
		{
			x++
			if x < 4 {
				goto B
			}
			fmt.Println("b in B", x)
		}
		fmt.Println("b after B")
	}
}

func main() {
	a(1)
	b(1)
	func() {
		switch {
		default:
			i := 0
		T:
			if i < 3 {
				i++
				goto T
			}
			fmt.Println("closure", i)
		}
	}()
}
