package main

import "fmt"

// Labelled loops inside switch clauses (tag switch, tagless switch, default).
func main() {
	for x := 0; x < 3; x++ {
		switch x {
		case 0:
		Outer:
			for i := 0; i < 3; i++ {
				for j := 0; j < 3; j++ {
					if j == 2 {
						continue Outer
					}
					if i == 2 {
						break Outer
					}
					fmt.Println("c0", i, j)
				}
			}
		default:
		Loop:
			for i := 0; ; i++ {
				switch {
				case i > 2:
					break Loop
				default:
					fmt.Println("d", x, i)
				}
			}
		}
	}
	switch y := 5; {
	case y > 3:
	R:
		for _, v := range []int{1, 2, 3} {
			for _, w := range []int{1, 2} {
				if w == 2 {
					continue R
				}
				fmt.Println("r", v, w)
			}
		}
	}
}
