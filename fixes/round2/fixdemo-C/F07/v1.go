package main

import "fmt"

func A() { fmt.Println("A") }

// panic in deferred during normal return, with pending defers and later recover
func f1() (res int) {
	defer func() {
		if r := recover(); r != nil {
			fmt.Println("f1 rec", r)
			res = -1
		}
	}()
	defer A()
	defer func() { panic("B") }()
	defer fmt.Println("first deferred")
	return 1
}

// a panic in a deferred call replaces the current panic
func f2() {
	defer func() { fmt.Println("f2 rec", recover()) }()
	defer func() { panic("second") }()
	panic("first")
}

// chain of three panicking defers
func f3() {
	defer func() { fmt.Println("f3 rec", recover()) }()
	defer func() { panic(3) }()
	defer func() { panic(2) }()
	defer func() { panic(1) }()
}

// recover in the middle, then new panic, then recover again
func f4() {
	defer func() { fmt.Println("f4 outer rec", recover()) }()
	defer func() { panic("again") }()
	defer func() { fmt.Println("f4 inner rec", recover()) }()
	panic("start")
}

// not recovered in the frame: propagates to the caller after all defers ran
func f5() {
	defer fmt.Println("f5 d1")
	defer func() { panic(fmt.Errorf("err %d", 5)) }()
	defer fmt.Println("f5 d3")
}

func g5() {
	defer func() {
		fmt.Println("g5 rec", recover())
	}()
	f5()
	fmt.Println("not reached")
}

// deferred method call and loop of defers
type T struct{ n int }

func (t *T) Close() {
	fmt.Println("close", t.n)
	if t.n == 1 {
		panic("close 1 failed")
	}
}

func closeT(t *T) { t.Close() }

func f6() {
	defer func() { fmt.Println("f6 rec", recover()) }()
	for i := 0; i < 3; i++ {
		t := &T{i}
		defer closeT(t)
	}
}

// runtime panic in a deferred call
func f7() {
	defer func() { fmt.Println("f7 rec", recover() != nil) }()
	defer fmt.Println("f7 pending")
	defer func() {
		var m map[string]int
		m["a"] = 1
	}()
}

func main() {
	fmt.Println(f1())
	f2()
	f3()
	f4()
	g5()
	f6()
	f7()
	fmt.Println("end")
}
