package main

import "fmt"

func A() { fmt.Println("A") }

func f() {
	defer func() { fmt.Println("rec", recover()) }()
	defer A()
	defer func() { panic("B") }()
	fmt.Println("body")
}

func main() {
	f()
	fmt.Println("end")
}
