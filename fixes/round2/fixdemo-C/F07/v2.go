package main

import "fmt"

// uncaught: the pending deferred calls run, then the program stops with the last panic
func main() {
	defer fmt.Println("d1")
	defer func() { panic("B") }()
	defer fmt.Println("d3")
	panic("A")
}
