package main

import (
	"fmt"
	"sync"
)

// the frame must stay usable after a deferred panic (goroutines, mutex unlock pending)
func work(mu *sync.Mutex, i int) (err error) {
	defer func() {
		if r := recover(); r != nil {
			err = fmt.Errorf("recovered %v", r)
		}
	}()
	mu.Lock()
	defer mu.Unlock()
	defer func() {
		if i%2 == 0 {
			panic(i)
		}
	}()
	return nil
}

func main() {
	var mu sync.Mutex
	var wg sync.WaitGroup
	res := make([]error, 6)
	for i := 0; i < 6; i++ {
		wg.Add(1)
		go func(i int) {
			defer wg.Done()
			res[i] = work(&mu, i)
		}(i)
	}
	wg.Wait()
	for i, e := range res {
		fmt.Println(i, e)
	}
}
