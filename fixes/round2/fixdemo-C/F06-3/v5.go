package main

import (
	"errors"
	"fmt"
	"strconv"
)

func f(s string) (n int, err error) {
	defer func() {
		if r := recover(); r != nil {
			if e, ok := r.(error); ok {
				err = e
				return
			}
			err = fmt.Errorf("panic: %v", r)
		}
	}()
	n, e := strconv.Atoi(s)
	if e != nil {
		panic(e)
	}
	if n < 0 {
		panic("negative")
	}
	return n, nil
}

func main() {
	fmt.Println(f("12"))
	n, err := f("zz")
	fmt.Println(n, err)
	var ne *strconv.NumError
	fmt.Println(errors.As(err, &ne))
	fmt.Println(f("-1"))
}
