package main

import (
	"errors"
	"fmt"
)

func inner() {
	defer func() {
		if x := recover(); x != nil {
			panic(x)
		}
	}()
	panic(errors.New("boom"))
}

func main() {
	inner()
	fmt.Println("unreachable")
}
