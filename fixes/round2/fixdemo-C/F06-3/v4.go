package main

func main() {
	defer func() {
		if x := recover(); x != nil {
			panic(x)
		}
	}()
	panic(143)
}
