package main

import "fmt"

func main() {
	defer func() {
		r := recover()
		s, ok := r.(string)
		fmt.Println("got", s, ok, r == "x")
	}()
	panic("x")
}
