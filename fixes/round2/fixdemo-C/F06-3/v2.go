package main

import "fmt"

func inner() {
	defer func() {
		if x := recover(); x != nil {
			panic(x)
		}
	}()
	panic(143)
}

func mid() {
	defer func() {
		if x := recover(); x != nil {
			panic(x)
		}
	}()
	inner()
}

func main() {
	defer func() {
		r := recover()
		n, ok := r.(int)
		fmt.Printf("%T %v %v %v\n", r, r, n, ok)
	}()
	mid()
}
