package main

import (
	"errors"
	"fmt"
)

type myErr struct{ code int }

func (e myErr) Error() string { return fmt.Sprintf("myErr %d", e.code) }

type pt struct{ x, y int }

func try(f func()) (r interface{}) {
	defer func() { r = recover() }()
	f()
	return nil
}

var sentinel = errors.New("sentinel")

func classify(r interface{}) {
	switch x := r.(type) {
	case nil:
		fmt.Println("nil")
	case int:
		fmt.Println("int", x)
	case string:
		fmt.Println("string", x)
	case float64:
		fmt.Println("float64", x)
	case myErr:
		fmt.Println("myErr", x.code)
	case []int:
		fmt.Println("[]int", x)
	case *pt:
		fmt.Println("*pt", x.x, x.y)
	default:
		fmt.Printf("other %T\n", x)
	}
}

func main() {
	// int
	r := try(func() { panic(143) })
	i, ok := r.(int)
	fmt.Println(i, ok, r == 143, r)
	fmt.Printf("%T %v\n", r, r)

	// error from binary
	r = try(func() { panic(sentinel) })
	e, ok := r.(error)
	fmt.Println(e, ok, r == sentinel, errors.Is(e, sentinel))
	fmt.Printf("%T\n", r)

	// fmt.Errorf wrapping
	r = try(func() { panic(fmt.Errorf("wrap: %w", sentinel)) })
	e, ok = r.(error)
	fmt.Println(e, ok, ok && errors.Is(e, sentinel))

	// source-defined struct type
	r = try(func() { panic(myErr{7}) })
	me, ok := r.(myErr)
	fmt.Println(me.code, ok, r == myErr{7}, r == myErr{8})

	// pointer to struct
	p := &pt{1, 2}
	r = try(func() { panic(p) })
	pp, ok := r.(*pt)
	fmt.Println(pp == p, ok)

	// switch on type
	classify(try(func() { panic(1) }))
	classify(try(func() { panic("s") }))
	classify(try(func() { panic(2.5) }))
	classify(try(func() { panic(sentinel) }))
	classify(try(func() { panic(myErr{1}) }))
	classify(try(func() { panic([]int{1}) }))
	classify(try(func() { panic(map[string]int{"a": 1}) }))
	classify(try(func() { panic(p) }))
	classify(try(func() {}))

	// a value held in an interface variable
	var w interface{} = uint8(5)
	r = try(func() { panic(w) })
	u, ok := r.(uint8)
	fmt.Printf("%T %v %v\n", r, u, ok)

	// typed nil error: panic(nil)
	var ne error
	r = try(func() { panic(ne) })
	fmt.Printf("%T\n", r)
}
