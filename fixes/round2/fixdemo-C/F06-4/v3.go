package main

import "fmt"

func main() {
	defer func() { r := recover(); fmt.Printf("%T\n", r) }()
	defer panic(nil)
	fmt.Println("body")
}
