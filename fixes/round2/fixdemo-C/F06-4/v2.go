package main

import "fmt"

// uncaught deferred panic: the body runs, then the program stops
func main() {
	defer fmt.Println("d1")
	defer panic("dp")
	fmt.Println("body")
}
