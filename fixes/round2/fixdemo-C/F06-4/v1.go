package main

import (
	"errors"
	"fmt"
)

type E struct{ c int }

// the argument is evaluated at the defer statement
func f1() {
	defer func() { fmt.Println("f1 rec", recover()) }()
	x := 1
	defer panic(x)
	x = 2
	fmt.Println("f1 body", x)
}

// several deferred panics: the last one to run wins
func f2() {
	defer func() { fmt.Println("f2 rec", recover()) }()
	defer panic("p1")
	defer panic("p2")
	fmt.Println("f2 body")
}

// deferred panic with an error and with a struct value
func f3() {
	defer func() {
		r := recover()
		e, ok := r.(error)
		fmt.Println("f3 rec", e, ok)
	}()
	defer panic(errors.New("boom"))
	fmt.Println("f3 body")
}

func f4() {
	defer func() {
		r := recover()
		e, ok := r.(E)
		fmt.Println("f4 rec", e.c, ok)
	}()
	defer panic(E{4})
	fmt.Println("f4 body")
}

// deferred panic in a loop and inside a function literal
func f5() {
	defer func() { fmt.Println("f5 rec", recover()) }()
	for i := 0; i < 3; i++ {
		defer panic(i * 10)
	}
	fmt.Println("f5 body")
}

func f6() (res string) {
	func() {
		defer func() { res = fmt.Sprint("f6 rec ", recover()) }()
		defer panic("inner")
		fmt.Println("f6 inner body")
	}()
	fmt.Println("f6 after")
	return
}

// the deferred panic replaces the panic in flight
func f7() {
	defer func() { fmt.Println("f7 rec", recover()) }()
	defer panic("deferred")
	panic("body")
}

// an ordinary panic call still stops the body at once
func f8() {
	defer func() { fmt.Println("f8 rec", recover()) }()
	if true {
		panic("now")
	}
	fmt.Println("f8 not reached")
}

// defer recover() does not stop the panic
func f9() {
	defer func() { fmt.Println("f9 rec", recover()) }()
	func() {
		defer recover()
		panic("f9")
	}()
	fmt.Println("f9 not reached")
}

func main() {
	f1()
	f2()
	f3()
	f4()
	f5()
	fmt.Println(f6())
	f7()
	f8()
	f9()
	fmt.Println("end")
}
