package main

import "fmt"

func main() {
	defer func() { fmt.Println("r1", recover()) }()
	defer panic("dp")
	fmt.Println("body")
}
