package main

import (
	"fmt"
	"sync"
)

// goroutines call a literal of the parent frame while the parent waits in a deferred call
func main() {
	var wg sync.WaitGroup
	var mu sync.Mutex
	n := 0
	h := func(i int) { mu.Lock(); n += i; mu.Unlock() }
	defer func() { fmt.Println("n", n) }()
	defer wg.Wait()
	for i := 1; i <= 5; i++ {
		wg.Add(1)
		go func(i int) {
			defer wg.Done()
			h(i)
		}(i)
	}
	fmt.Println("body")
}
