package main

import (
	"fmt"
	"sync"
)

// literal with arguments and results, deferred through a variable
func f1() (res int) {
	add := func(n int) int { res += n; return res }
	defer add(10)
	defer add(5)
	fmt.Println("f1 body")
	return 1
}

// called from a deferred closure
func f2() {
	h := func(s string) { fmt.Println("h", s) }
	defer func() {
		h("from closure")
		h("twice")
	}()
	fmt.Println("f2 body")
}

// with a panic in flight, recovered by a direct deferred literal
func f3() {
	h := func() { fmt.Println("f3 cleanup") }
	defer func() { fmt.Println("f3 rec", recover()) }()
	defer h()
	panic("f3 panic")
}

// the literal is used both in the body and deferred, in a loop
func f4() {
	n := 0
	inc := func() { n++; fmt.Println("inc", n) }
	for i := 0; i < 3; i++ {
		inc()
		defer inc()
	}
	fmt.Println("f4 body", n)
}

// nested: a literal defined in an outer function, deferred by an inner literal
func f5() {
	out := func() { fmt.Println("f5 out") }
	func() {
		defer out()
		fmt.Println("f5 inner body")
	}()
	defer out()
	fmt.Println("f5 body")
}

// a function literal stored in a struct field and in a slice
type S struct{ f func() }

func f6() {
	s := S{f: func() { fmt.Println("f6 field") }}
	fs := []func(){func() { fmt.Println("f6 slice 0") }, func() { fmt.Println("f6 slice 1") }}
	defer s.f()
	for _, f := range fs {
		defer f()
	}
	fmt.Println("f6 body")
}

// a deferred literal variable unlocking a mutex and signalling a wait group from goroutines
func f7() {
	var mu sync.Mutex
	var wg sync.WaitGroup
	total := 0
	for i := 1; i <= 4; i++ {
		wg.Add(1)
		go func(i int) {
			done := func() { wg.Done() }
			defer done()
			unlock := func() { mu.Unlock() }
			mu.Lock()
			defer unlock()
			total += i
		}(i)
	}
	wg.Wait()
	fmt.Println("f7 total", total)
}

func main() {
	fmt.Println(f1())
	f2()
	f3()
	f4()
	f5()
	f6()
	f7()
	fmt.Println("end")
}
