package main

import "fmt"

// NOT repaired: recover() in a literal held in a variable does not see the panic
// (its frame's ancestor is a clone of main's frame taken when the literal was created).
func main() {
	h := func() { fmt.Println("h", recover()) }
	defer h()
	panic("x")
}
