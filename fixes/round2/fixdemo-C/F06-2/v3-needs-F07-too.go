package main

import "fmt"

// the literal panics itself when run as a deferred call, a later deferred call recovers
// (needs the F07 repair as well: the pending deferred calls must run)
func main() {
	bad := func() { panic("bad") }
	defer func() { fmt.Println("rec", recover()) }()
	defer bad()
	fmt.Println("body")
}
