package main

import "fmt"

func main() {
	h := func() { fmt.Println("h") }
	defer h()
	fmt.Println("body")
}
