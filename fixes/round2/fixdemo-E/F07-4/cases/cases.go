package cases

import (
	"fmt"
	"strings"

	"fixdemo/hp"
)

type obj struct {
	name string
	out  *[]string
}

func (o *obj) m(p string, rest ...string) {
	*o.out = append(*o.out, fmt.Sprint("m ", o.name, " ", p, " ", rest == nil, " ", len(rest), " ", rest))
}

func (o obj) v(rest ...interface{}) {
	*o.out = append(*o.out, fmt.Sprint("v ", o.name, " ", rest == nil, " ", len(rest), " ", rest))
}

// Run defers variadic calls with a spread argument.
func Run() []string {
	var out []string
	add := func(s string) { out = append(out, s) }
	sf := func(a int, rest ...int) { add(fmt.Sprint("sf ", a, " ", rest == nil, " ", len(rest), " ", rest)) }
	si := func(rest ...interface{}) { add(fmt.Sprint("si ", rest == nil, " ", len(rest), " ", rest)) }

	xs := []int{1, 2, 3}
	is := []interface{}{"a", 2}
	ss := []string{"x", "y"}
	t := &hp.T{Name: "t"}
	o := &obj{"o", &out}

	hp.Reset()
	func() {
		// host function, method and function variable
		defer hp.F(5, xs...)
		defer hp.G(is...)
		defer hp.G(is)
		defer hp.S("p", ss...)
		defer t.M("p", ss...)
		defer t.V(xs...)
		defer hp.Fn(xs...)
		defer hp.F(6, []int(nil)...)
		defer hp.F(7, []int{}...)
		defer hp.F(8, xs[:1]...)
		i := hp.NewI("i")
		defer i.M("q", ss...)
		// the slice variable is read by the defer statement, its elements are shared
		ys := []int{10, 20}
		defer hp.F(9, ys...)
		ys[0] = 11
		ys = nil
		// stdlib
		var sb strings.Builder
		defer func() { hp.S(sb.String(), "end") }()
		defer fmt.Fprintln(&sb, is...)
		defer fmt.Fprint(&sb, is)
	}()
	for _, s := range hp.Reset() {
		add("host " + s)
	}
	func() {
		// script function literal, method with pointer and value receiver
		defer sf(1, xs...)
		defer si(is...)
		defer si(is)
		defer sf(2, []int(nil)...)
		defer sf(3, []int{}...)
		defer o.m("p", ss...)
		defer o.v(is...)
		defer o.v(is)
		for k := 0; k < 2; k++ {
			defer sf(10+k, xs[k:]...)
		}
	}()
	// a deferred variadic call that recovers
	func() {
		defer func(msgs ...string) {
			r := recover()
			add(fmt.Sprint("recovered ", r, " ", msgs))
		}(ss...)
		panic("boom")
	}()
	return out
}
