package main

import (
	"fmt"
	"os"
	"strings"
)

type T struct{ n string }

func (t *T) m(p string, rest ...string) { fmt.Println("m", t.n, p, rest == nil, len(rest), rest) }
func (t T) v(rest ...interface{})      { fmt.Println("v", t.n, rest == nil, len(rest), rest) }

func f(a int, rest ...int) { fmt.Println("f", a, rest == nil, len(rest), rest) }

func g(rest ...interface{}) { fmt.Println("g", rest == nil, len(rest), rest) }

func sum(rest ...int) (s int) {
	defer func(ys ...int) {
		for _, y := range ys {
			s += y
		}
	}(rest...)
	return 1000
}

func main() {
	xs := []int{1, 2, 3}
	is := []interface{}{"a", 2, nil}
	ss := []string{"x", "y"}
	t := &T{"t"}
	defer f(1, xs...)
	defer g(is...)
	defer g(is)
	defer g(xs)
	defer t.m("p", ss...)
	defer t.v(is...)
	defer fmt.Println(is...)
	defer fmt.Println(is)
	defer fmt.Fprintf(os.Stdout, "%v-%v-%v\n", is...)
	defer fmt.Println(strings.Join(ss, ","))
	for i := range xs {
		defer f(10+i, xs[i:]...)
	}
	ys := []int{7, 8}
	defer f(2, ys...)
	ys = []int{9}
	fv := f
	defer fv(3, ys...)
	defer f(4, []int(nil)...)
	defer f(5, []int{}...)
	fmt.Println(sum(1, 2, 3))
}
