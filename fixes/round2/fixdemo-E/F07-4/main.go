package main

import (
	"fixdemo/F07-4/cases"
	"fixdemo/hp"
)

func main() { hp.Compare(cases.Run, "F07-4/cases/cases.go") }
