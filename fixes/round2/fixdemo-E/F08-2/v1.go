package main

import (
	"fmt"
	"io"
	"sync"
	"sync/atomic"
)

type P struct{ a, b int }

func main() {
	// loop variable modified after the go statement, host method
	var m sync.Map
	var wg sync.WaitGroup
	k := 0
	for i := 0; i < 5; i++ {
		k = i
		wg.Add(1)
		go func() { wg.Done() }()
		go m.Store(k, i*i)
		k = -1
	}
	wg.Wait()
	for i := 0; i < 5; i++ {
		for {
			if v, ok := m.Load(i); ok {
				fmt.Println(i, v)
				break
			}
		}
	}
	_, bad := m.Load(-1)
	fmt.Println("bad", bad)

	// struct value and string arguments
	p := P{1, 2}
	s := "before"
	go m.Store(s, p)
	p.a = 100
	s = "after"
	for {
		if v, ok := m.Load("before"); ok {
			fmt.Println(v)
			break
		}
	}

	// host function (not a method): pointer and value arguments
	var cnt int64
	d := int64(5)
	go atomic.AddInt64(&cnt, d)
	d = 1000
	for atomic.LoadInt64(&cnt) == 0 {
	}
	fmt.Println("cnt", atomic.LoadInt64(&cnt))

	// variadic host function, interface arguments
	pr, pw := io.Pipe()
	x, y := 1, "one"
	go fmt.Fprintln(pw, x, y)
	x, y = 2, "two"
	buf := make([]byte, 64)
	nb, _ := pr.Read(buf)
	fmt.Print(string(buf[:nb]))

	// slice argument: the slice header is copied, the elements are shared
	xs := []int{1, 2, 3}
	go m.Store("xs", xs)
	xs = []int{9}
	for {
		if v, ok := m.Load("xs"); ok {
			fmt.Println(v)
			break
		}
	}

	// channel send through a host method value with interface value
	var e interface{} = 7
	go m.Store("e", e)
	e = "changed"
	for {
		if v, ok := m.Load("e"); ok {
			fmt.Println(v)
			break
		}
	}
}
