package main

import (
	"fmt"
	"sync"
)

func main() {
	var m sync.Map
	y := 10
	go m.Store("k", y)
	y = 20
	for {
		if v, ok := m.Load("k"); ok {
			fmt.Println("k", v)
			break
		}
	}
}
