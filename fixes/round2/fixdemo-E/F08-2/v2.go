package main

import (
	"fmt"
	"sync/atomic"
)

func main() {
	// variable of host function type reassigned after the go statement
	cnt := int64(1)
	var seen int64
	f := atomic.AddInt64
	d := int64(5)
	go func() {
		for atomic.LoadInt64(&cnt) == 1 {
		}
		atomic.StoreInt64(&seen, 1)
	}()
	go f(&cnt, d)
	f = atomic.SwapInt64
	d = 50
	for atomic.LoadInt64(&seen) == 0 {
	}
	fmt.Println(atomic.LoadInt64(&cnt))
	_ = f
}
