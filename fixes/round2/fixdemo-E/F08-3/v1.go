package main

import "fmt"

type T struct {
	n  int
	ok bool
}

func main() {
	c := make(chan int, 4)
	d := make(chan string, 1)
	// two-value assignment, empty body
	c <- 1
	x, ok := 0, false
	select {
	case x, ok = <-c:
	}
	fmt.Println("x", x, ok)
	// blank assignment, empty body
	c <- 2
	select {
	case _ = <-c:
	}
	fmt.Println("len", len(c))
	// several empty clauses, with a default
	var s string
	select {
	case x = <-c:
	case s = <-d:
	default:
	}
	fmt.Println("none", x, s)
	d <- "str"
	select {
	case x = <-c:
	case s = <-d:
	}
	fmt.Println("s", x, s)
	// empty assign clause next to a non-empty one
	c <- 3
	select {
	case x = <-c:
	case s = <-d:
		fmt.Println("not here")
	}
	fmt.Println("x", x)
	// closed channel
	close(c)
	select {
	case x, ok = <-c:
	}
	fmt.Println("closed", x, ok)
	// in a loop, in a goroutine
	res := make(chan int)
	in := make(chan int)
	go func() {
		sum, v := 0, 0
		for i := 0; i < 3; i++ {
			select {
			case v = <-in:
			}
			sum += v
		}
		res <- sum
	}()
	for i := 1; i <= 3; i++ {
		in <- i * 10
	}
	fmt.Println("sum", <-res)
	// interface destination
	var e interface{}
	ci := make(chan int, 1)
	ci <- 9
	select {
	case e = <-ci:
	}
	fmt.Printf("%T %v\n", e, e)
}
