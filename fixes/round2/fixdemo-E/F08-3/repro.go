package main

import "fmt"

func main() {
	c := make(chan int, 1)
	c <- 1
	x := 0
	select {
	case x = <-c:
	}
	fmt.Println("x", x)
}
