package main

import "fmt"

// Two-value assignment clauses with an empty body: correct with fix-F08-3 alone.
func main() {
	c := make(chan int, 4)
	d := make(chan string, 1)
	var x int
	var s string
	var ok, ok2 bool
	c <- 1
	select {
	case x, ok = <-c:
	}
	fmt.Println(x, ok)
	select {
	case x, ok = <-c:
	case s, ok2 = <-d:
	default:
	}
	fmt.Println(x, ok, s, ok2)
	d <- "str"
	select {
	case x, ok = <-c:
	case s, ok2 = <-d:
	}
	fmt.Println(x, ok, s, ok2)
	c <- 3
	select {
	case x, ok = <-c:
	case s, ok2 = <-d:
		fmt.Println("not here")
	}
	fmt.Println(x)
	close(c)
	for i := 0; i < 2; i++ {
		select {
		case x, ok = <-c:
		}
		fmt.Println("closed", x, ok)
	}
}
