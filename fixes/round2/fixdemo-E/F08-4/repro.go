package main

import (
	"fmt"
	"sync"
)

type Acc struct{ id int }

func (a *Acc) run(res []int, k int, wg *sync.WaitGroup) {
	res[k] = a.id
	wg.Done()
}

func main() {
	accs := []*Acc{{id: 10}, {id: 20}, {id: 30}}
	res := make([]int, 3)
	var wg sync.WaitGroup
	for w := 0; w < 3; w++ {
		wg.Add(1)
		go accs[w].run(res, w, &wg)
	}
	wg.Wait()
	fmt.Println(res)
}
