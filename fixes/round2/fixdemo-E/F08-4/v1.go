package main

import (
	"fmt"
	"sort"
	"sync"
)

type Acc struct {
	id  int
	sum int
}

func (a *Acc) add(n int, wg *sync.WaitGroup) {
	a.sum += n
	if wg != nil {
		wg.Done()
	}
}

func (a Acc) show(out []string, k int, wg *sync.WaitGroup) {
	out[k] = fmt.Sprint("acc", a.id, ":", a.sum)
	a.sum = -1 // on the copy
	wg.Done()
}

type Base struct{ name string }

func (b *Base) hello(out []string, k int, wg *sync.WaitGroup) {
	out[k] = "hello " + b.name
	wg.Done()
}

type Derived struct {
	Base
	n int
}

type Runner interface {
	run(out []string, k int, wg *sync.WaitGroup)
}

type R1 struct{ s string }

func (r R1) run(out []string, k int, wg *sync.WaitGroup) { out[k] = "R1" + r.s; wg.Done() }

type R2 struct{ s string }

func (r *R2) run(out []string, k int, wg *sync.WaitGroup) { out[k] = "R2" + r.s; wg.Done() }

type byLen struct{ xs []string }

func (b *byLen) less(i, j int) bool { return len(b.xs[i]) < len(b.xs[j]) }

func main() {
	var wg sync.WaitGroup

	// pointer variable reassigned after the go statement
	a, b := &Acc{id: 1}, &Acc{id: 2}
	p := a
	wg.Add(1)
	go p.add(5, &wg)
	p = b
	wg.Wait()
	fmt.Println(a.sum, b.sum)

	// range over values, value receiver: each goroutine has its own copy
	accs := []Acc{{1, 10}, {2, 20}, {3, 30}}
	out := make([]string, 3)
	for i, v := range accs {
		wg.Add(1)
		go v.show(out, i, &wg)
	}
	wg.Wait()
	fmt.Println(out, accs)

	// value receiver from a pointer: the value is read by the go statement
	pa := &Acc{id: 7, sum: 70}
	wg.Add(1)
	go pa.show(out, 0, &wg)
	pa = &Acc{id: 8}
	wg.Wait()
	fmt.Println(out[0])

	// pointer receiver on an addressable variable: the goroutine updates the variable
	var acc Acc
	for i := 1; i <= 3; i++ {
		wg.Add(1)
		go acc.add(i, &wg)
		wg.Wait()
	}
	fmt.Println(acc)

	// element of a slice of structs, pointer receiver
	for i := range accs {
		wg.Add(1)
		go accs[i].add(1, &wg)
	}
	wg.Wait()
	fmt.Println(accs)

	// promoted method of an embedded struct
	ds := []*Derived{{Base{"x"}, 1}, {Base{"y"}, 2}, {Base{"z"}, 3}}
	for i := range ds {
		wg.Add(1)
		go ds[i].hello(out, i, &wg)
	}
	wg.Wait()
	fmt.Println(out)
	dv := Derived{Base{"v"}, 0}
	wg.Add(1)
	go dv.hello(out, 0, &wg)
	wg.Wait()
	fmt.Println(out[0])

	// method called through an interface value
	rs := []Runner{R1{"a"}, &R2{"b"}, R1{"c"}}
	for i, r := range rs {
		wg.Add(1)
		go r.run(out, i, &wg)
	}
	wg.Wait()
	fmt.Println(out)
	var r Runner = R1{"first"}
	wg.Add(1)
	go r.run(out, 0, &wg)
	r = &R2{"second"}
	wg.Wait()
	fmt.Println(out[0])

	// map of pointers
	m := map[string]*Acc{"k1": {id: 1}, "k2": {id: 2}}
	for _, k := range []string{"k1", "k2"} {
		wg.Add(1)
		go m[k].add(100, &wg)
	}
	wg.Wait()
	fmt.Println(m["k1"].sum, m["k2"].sum)

	// method value handed to a host function, receiver reassigned afterwards
	bl := &byLen{xs: []string{"ccc", "a", "bb"}}
	less := bl.less
	bl2 := bl
	bl = &byLen{xs: []string{"", "", ""}}
	sort.Slice(bl2.xs, less)
	fmt.Println(bl2.xs)

	// deferred method call: receiver variable reassigned
	func() {
		q := a
		defer fmt.Println("deferred done", a.sum, b.sum)
		defer q.add(1000, nil)
		q = b
	}()
}
