package main

import "fmt"

type S struct {
	v   int
	in  struct{ w string }
	arr [3]int
}

var g int

func idx(tag string, i int) int {
	fmt.Println("idx", tag, i)
	return i
}

func ch(tag string, c chan int) chan int {
	fmt.Println("ch", tag)
	return c
}

func main() {
	c := make(chan int, 8)
	cs := make(chan string, 2)

	// struct field, nested field, array in struct
	var s S
	ps := &s
	c <- 1
	select {
	case s.v = <-c:
		s.v *= 2
	}
	cs <- "w"
	select {
	case ps.in.w = <-cs:
	}
	c <- 3
	select {
	case ps.arr[2] = <-c:
		fmt.Println("arr", ps.arr)
	}
	fmt.Println(s)

	// pointer dereference
	p := new(int)
	c <- 4
	select {
	case *p = <-c:
		*p++
	}
	fmt.Println("p", *p)

	// map entry
	m := map[string]int{}
	c <- 5
	select {
	case m["k"] = <-c:
		fmt.Println("m", m)
	}

	// global variable, closure variable
	c <- 6
	c <- 7
	y := 0
	func() {
		select {
		case g = <-c:
		}
		select {
		case y = <-c:
			y += 1000
		}
	}()
	fmt.Println("g", g, "y", y)

	// the address of the variable still designates it
	z := 0
	pz := &z
	c <- 8
	select {
	case z = <-c:
	}
	fmt.Println("z", z, *pz)

	// interface destination
	var e interface{}
	var st fmt.Stringer
	cst := make(chan fmt.Stringer, 1)
	c <- 9
	select {
	case e = <-c:
		fmt.Printf("%T %v\n", e, e)
	}
	cst <- nil
	select {
	case st = <-cst:
		fmt.Println(st == nil)
	}

	// order of evaluation: channels first, the index only for the selected clause
	a := make([]int, 3)
	c1, c2 := make(chan int, 1), make(chan int, 1)
	c2 <- 22
	select {
	case a[idx("one", 1)] = <-ch("one", c1):
		fmt.Println("one")
	case a[idx("two", 2)] = <-ch("two", c2):
		fmt.Println("two")
	}
	fmt.Println(a)

	// a clause that is not selected does not evaluate its (panicking) destination
	var np *int
	c2 <- 23
	select {
	case *np = <-c1:
		fmt.Println("never")
	case a[0] = <-c2:
	}
	fmt.Println(a)

	// the define form still declares a clause variable
	x := 1
	c <- 10
	select {
	case x := <-c:
		x++
		fmt.Println("inner", x)
	}
	fmt.Println("outer", x)

	// loop, with variable used after each iteration
	total := 0
	for i := 0; i < 3; i++ {
		c <- i
		var v int
		select {
		case v = <-c:
			total += v
		default:
			total = -1
		}
	}
	fmt.Println("total", total)

	// named type, conversion-free assign
	type My int
	cm := make(chan My, 1)
	var mv My
	cm <- 5
	select {
	case mv = <-cm:
	}
	fmt.Println(mv)

	// struct values and slices
	type P struct{ a, b int }
	cp := make(chan P, 1)
	pts := []P{{}, {}}
	cp <- P{1, 2}
	select {
	case pts[1] = <-cp:
		pts[1].a = 7
	}
	fmt.Println(pts)
}
