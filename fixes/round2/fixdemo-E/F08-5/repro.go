package main

import "fmt"

func main() {
	c := make(chan int, 1)
	c <- 5
	x := 0
	arr := []int{0, 0}
	select {
	case x = <-c:
		x += 100
	}
	c <- 6
	select {
	case arr[1] = <-c:
		fmt.Println("received")
	}
	fmt.Println("x", x, "arr", arr)
}
