package main

import (
	"fmt"
	"sync"
	"time"
)

type Msg struct {
	id   int
	body string
}

func recvNamed(c chan int) (r int, err error) {
	select {
	case r = <-c:
	}
	return
}

func recvParam(c chan int, acc int) int {
	select {
	case acc = <-c:
		acc *= 3
	}
	return acc
}

type W struct {
	last Msg
	in   chan Msg
	quit chan struct{}
	n    int
}

func (w *W) loop(wg *sync.WaitGroup) {
	defer wg.Done()
	for {
		select {
		case w.last = <-w.in:
			w.n++
		case <-w.quit:
			return
		}
	}
}

func main() {
	c := make(chan int, 2)
	c <- 11
	fmt.Println(recvNamed(c))
	c <- 12
	fmt.Println(recvParam(c, 1))

	// host channel type
	var t time.Time
	select {
	case t = <-time.After(time.Millisecond):
		fmt.Println("tick", !t.IsZero())
	}

	// method receiver field, goroutine
	w := &W{in: make(chan Msg), quit: make(chan struct{})}
	var wg sync.WaitGroup
	wg.Add(1)
	go w.loop(&wg)
	for i := 1; i <= 5; i++ {
		w.in <- Msg{i, fmt.Sprint("m", i)}
	}
	close(w.quit)
	wg.Wait()
	fmt.Println(w.last, w.n)

	// send and receive-assign clauses together
	out := make(chan int, 1)
	in := make(chan int, 1)
	got := -1
	for i := 0; i < 2; i++ {
		select {
		case out <- i:
			fmt.Println("sent", i)
			in <- 50 + i
		case got = <-in:
			fmt.Println("got", got)
		}
	}

	// channel of functions and of interfaces
	cf := make(chan func() string, 1)
	var f func() string
	cf <- func() string { return "fn" }
	select {
	case f = <-cf:
	}
	fmt.Println(f())
	ce := make(chan error, 1)
	var err error
	ce <- fmt.Errorf("boom")
	select {
	case err = <-ce:
		fmt.Println(err)
	}

	// several goroutines, each with its own destination
	res := make([]int, 4)
	src := make(chan int)
	var wg2 sync.WaitGroup
	for i := range res {
		wg2.Add(1)
		go func(i int) {
			defer wg2.Done()
			select {
			case res[i] = <-src:
				res[i] += 100
			}
		}(i)
	}
	for i := 0; i < 4; i++ {
		src <- 1
	}
	wg2.Wait()
	fmt.Println(res)

	// nested select
	a, b := make(chan int, 1), make(chan int, 1)
	a <- 1
	b <- 2
	var va, vb int
	select {
	case va = <-a:
		select {
		case vb = <-b:
			vb += va
		}
	}
	fmt.Println(va, vb)

	// labelled break out of a for/select with assignment
	d := make(chan int, 3)
	d <- 1
	d <- 2
	close(d)
	var last int
	cnt := 0
loop:
	for {
		var v int
		var ok bool
		select {
		case v, ok = <-d:
			if !ok {
				break loop
			}
			last = v
			cnt++
		}
	}
	fmt.Println(last, cnt)
}
