package hp

import "reflect"

// Exports is the symbol table of package hp for interp.Use.
var Exports = map[string]map[string]reflect.Value{
	"fixdemo/hp/hp": {
		"Log":      reflect.ValueOf(&Log).Elem(),
		"Reset":    reflect.ValueOf(Reset),
		"LogLen":   reflect.ValueOf(LogLen),
		"F":        reflect.ValueOf(F),
		"G":        reflect.ValueOf(G),
		"S":        reflect.ValueOf(S),
		"Keep":     reflect.ValueOf(Keep),
		"Fl":       reflect.ValueOf(Fl),
		"Two":      reflect.ValueOf(Two),
		"T":        reflect.ValueOf((*T)(nil)),
		"I":        reflect.ValueOf((*I)(nil)),
		"NewI":     reflect.ValueOf(NewI),
		"Fn":       reflect.ValueOf(&Fn).Elem(),
		"CallBack": reflect.ValueOf(CallBack),
	},
}
