// Package hp is a host (compiled) package exposed to the interpreter.
package hp

import (
	"fmt"
	"reflect"
	"sync"
)

var mu sync.Mutex

// Log collects what the host functions received.
var Log []string

func desc(rest interface{}) string {
	v := reflect.ValueOf(rest)
	return fmt.Sprintf("nil=%v len=%d %v", v.IsNil(), v.Len(), rest)
}

func record(s string) string {
	mu.Lock()
	defer mu.Unlock()
	Log = append(Log, s)
	return s
}

// LogLen returns the number of recorded calls.
func LogLen() int {
	mu.Lock()
	defer mu.Unlock()
	return len(Log)
}

// Reset empties the log and returns its previous content.
func Reset() []string {
	mu.Lock()
	defer mu.Unlock()
	l := Log
	Log = nil
	return l
}

func F(a int, rest ...int) string         { return record(fmt.Sprintf("F a=%d %s", a, desc(rest))) }
func G(rest ...interface{}) string        { return record("G " + desc(rest)) }
func S(p string, rest ...string) string   { return record("S " + p + " " + desc(rest)) }
func Keep(rest ...int) []int              { return rest }
func Fl(x float64, rest ...[]byte) string { return record(fmt.Sprintf("Fl %v %s", x, desc(rest))) }
func Two(a, b int, rest ...*int) (int, bool) {
	record("Two " + desc(rest))
	return a + b + len(rest), rest == nil
}

type T struct{ Name string }

func (t *T) M(p string, rest ...string) string {
	return record("M " + t.Name + " " + p + " " + desc(rest))
}
func (t T) V(rest ...int) string { return record("V " + t.Name + " " + desc(rest)) }

type I interface {
	M(p string, rest ...string) string
}

func NewI(name string) I { return &T{name} }

// Fn is a variable of function type.
var Fn = func(rest ...int) string { return record("Fn " + desc(rest)) }

// CallBack calls a function given by the script, without variadic arguments, then with some.
func CallBack(f func(a int, rest ...int) string) string {
	return f(1) + "|" + f(2, 3, 4) + "|" + f(5, []int{6}...)
}
