package hp

import (
	"fmt"
	"os"

	"github.com/traefik/yaegi/interp"
	"github.com/traefik/yaegi/stdlib"
)

// Compare runs the compiled cases, then the same source in the interpreter, and compares the lines.
func Compare(native func() []string, srcPath string) {
	want := native()
	Reset()
	src, err := os.ReadFile(srcPath)
	if err != nil {
		panic(err)
	}
	i := interp.New(interp.Options{})
	if err := i.Use(stdlib.Symbols); err != nil {
		panic(err)
	}
	if err := i.Use(Exports); err != nil {
		panic(err)
	}
	if _, err := i.Eval(string(src)); err != nil {
		fmt.Println("EVAL ERROR:", err)
		os.Exit(1)
	}
	v, err := i.Eval("cases.Run()")
	if err != nil {
		fmt.Println("RUN ERROR:", err)
		os.Exit(1)
	}
	got := v.Interface().([]string)
	bad := 0
	for k := 0; k < len(want) || k < len(got); k++ {
		var w, g string
		if k < len(want) {
			w = want[k]
		}
		if k < len(got) {
			g = got[k]
		}
		if w != g {
			bad++
			fmt.Printf("DIFF line %d\n  compiled:    %s\n  interpreted: %s\n", k, w, g)
		}
	}
	fmt.Printf("%d lines, %d differences\n", len(want), bad)
	if bad > 0 {
		os.Exit(1)
	}
}
