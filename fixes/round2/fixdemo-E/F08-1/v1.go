package main

import "fmt"

type H struct {
	c  chan string
	cs map[string]chan string
}

func (h *H) ch() chan string { return h.c }

func mk() chan int {
	c := make(chan int, 1)
	c <- 42
	return c
}

func main() {
	h := &H{c: make(chan string, 2), cs: map[string]chan string{"a": make(chan string, 1)}}
	h.c <- "hello"
	// selector as channel expression
	select {
	case v, ok := <-h.c:
		fmt.Println("sel", v, ok)
	}
	// method call as channel expression
	h.c <- "world"
	select {
	case v, ok := <-h.ch():
		fmt.Println("call", v, ok)
	}
	// map index as channel expression
	h.cs["a"] <- "m"
	select {
	case v, ok := <-h.cs["a"]:
		fmt.Println("map", v, ok)
	default:
		fmt.Println("default")
	}
	// function call
	select {
	case v, ok := <-mk():
		fmt.Println("mk", v, ok)
	}
	// assignment form with existing variables
	var v string
	var ok bool
	close(h.c)
	select {
	case v, ok = <-h.c:
		fmt.Printf("closed %q %v\n", v, ok)
	}
	// two clauses, second ready, nested index
	css := [][]chan int{{make(chan int, 1), make(chan int, 1)}}
	css[0][1] <- 3
	select {
	case a, ok := <-css[0][0]:
		fmt.Println("first", a, ok)
	case b, ok := <-css[0][1]:
		fmt.Println("second", b, ok)
	}
	// blank value
	css[0][0] <- 1
	select {
	case _, ok := <-css[0][0]:
		fmt.Println("blank", ok)
	}
	// in a loop with default
	n := 0
	arr := [2]chan int{make(chan int, 3), nil}
	arr[0] <- 1
	arr[0] <- 2
	for i := 0; i < 4; i++ {
		select {
		case x, ok := <-arr[0]:
			n += x
			fmt.Println("loop", x, ok)
		default:
			fmt.Println("empty")
		}
	}
	fmt.Println(n)
}
