package main

import "fmt"

func main() {
	cs := make([]chan int, 1)
	cs[0] = make(chan int, 1)
	cs[0] <- 7
	select {
	case v, ok := <-cs[0]:
		fmt.Println("got", v, ok)
	}
	fmt.Println("done")
}
