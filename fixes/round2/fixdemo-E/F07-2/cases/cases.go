package cases

import (
	"fmt"
	"sync"

	"fixdemo/hp"
)

type local struct{ t *hp.T }

// Run calls variadic host functions without variadic arguments.
func Run() []string {
	var out []string
	add := func(s string) { out = append(out, s) }

	// function, no variadic argument / some / spread / spread of a nil and of an empty slice
	add(hp.F(5))
	add(hp.F(5, 1))
	add(hp.F(5, 1, 2))
	add(hp.F(5, []int{7, 8}...))
	add(hp.F(5, []int(nil)...))
	add(hp.F(5, []int{}...))
	// only variadic parameter, interface elements
	add(hp.G())
	add(hp.G(nil))
	add(hp.G(1, "a"))
	add(hp.S("p"))
	add(hp.S("p", "q"))
	add(hp.Fl(1.5))
	add(fmt.Sprint(hp.Keep() == nil, hp.Keep(1) == nil, len(hp.Keep())))
	// several results
	n, isnil := hp.Two(1, 2)
	add(fmt.Sprint(n, isnil))
	if _, isnil := hp.Two(1, 2); isnil {
		add("two nil")
	}
	// methods: pointer receiver, value receiver, through a variable, a field, an interface
	t := &hp.T{Name: "t"}
	add(t.M("p"))
	add(t.M("p", "x"))
	add(t.V())
	add(t.V(1))
	tv := hp.T{Name: "tv"}
	add(tv.M("p"))
	add(tv.V())
	l := local{t}
	add(l.t.M("f"))
	i := hp.NewI("i")
	add(i.M("p"))
	add(i.M("p", "y", "z"))
	var i2 hp.I = t
	add(i2.M("p"))
	// function variable, function value in a script variable
	add(hp.Fn())
	add(hp.Fn(1))
	f := hp.F
	add(f(9))
	// nested call as argument
	add(hp.S(hp.F(3)))
	// result used in a condition
	if hp.Keep() == nil {
		add("keep nil")
	}
	// go and defer statements
	hp.Reset()
	var wg sync.WaitGroup
	wg.Add(1)
	go func() { defer wg.Done(); hp.F(10) }()
	wg.Wait()
	func() {
		defer hp.F(11)
		defer t.M("deferred")
		defer hp.G()
	}()
	for _, s := range hp.Reset() {
		add("log " + s)
	}
	done := make(chan bool)
	go func() {
		for hp.LogLen() == 0 {
		}
		done <- true
	}()
	go hp.F(12)
	<-done
	for _, s := range hp.Reset() {
		add("golog " + s)
	}
	// script function called back by the host without variadic arguments
	add(hp.CallBack(func(a int, rest ...int) string { return fmt.Sprint(a, rest == nil, len(rest)) }))
	return out
}
