package main

import (
	"fixdemo/F07-2/cases"
	"fixdemo/hp"
)

func main() { hp.Compare(cases.Run, "F07-2/cases/cases.go") }
