package main

import (
	"fmt"
	"sync"
)

type T struct{ name string }

func (t *T) m(p string, rest ...string) {
	fmt.Println("m", t.name, p, rest == nil, len(rest))
}

func f(a int, rest ...int) {
	fmt.Println("f", a, rest == nil, len(rest))
}

func g(rest ...interface{}) {
	fmt.Println("g", rest == nil, len(rest))
}

func main() {
	t := &T{"t"}
	// script functions: direct, deferred and go calls without variadic arguments
	f(1)
	g()
	t.m("p")
	func() {
		defer f(2)
		defer g()
		defer t.m("d")
		defer f(3, 4)
	}()
	var wg sync.WaitGroup
	wg.Add(1)
	go func() {
		defer wg.Done()
		f(5)
	}()
	wg.Wait()
	done := make(chan bool)
	go func(rest ...int) {
		fmt.Println("lit", rest == nil, len(rest))
		done <- true
	}()
	<-done
	// function value
	fv := f
	fv(6)
	defer fv(7)
	// host variadic functions
	fmt.Println()
	defer fmt.Println()
	fmt.Print(fmt.Sprint(), fmt.Sprintf("x"), "\n")
}
