package main

import "fmt"

func get(ps []*int, i int) (r int, err error) {
	defer func() {
		if e := recover(); e != nil {
			err = fmt.Errorf("caught: %v", e)
		}
	}()
	m := map[int]int{}
	m[i] = *ps[i]
	return m[i], nil
}

func main() {
	one := 1
	ps := []*int{&one, nil}
	fmt.Println(get(ps, 0))
	fmt.Println(get(ps, 1))
}
