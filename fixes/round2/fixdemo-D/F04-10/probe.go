package main

import "fmt"

type P struct{ X, Y int }

func main() {
	defer func() {
		r := recover()
		_, isErr := r.(error)
		fmt.Printf("%T %v %v\n", r, r, isErr)
	}()
	var p *int
	x := *p
	fmt.Println("not reached", x)
}
