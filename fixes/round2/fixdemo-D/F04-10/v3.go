package main

import "fmt"

type N struct {
	v    int
	next *N
}

func main() {
	defer func() { fmt.Println("recovered:", recover()) }()
	l := &N{1, &N{2, nil}}
	seen := map[int]N{}
	for n := l; ; n = n.next {
		seen[len(seen)] = *n.next
		fmt.Println(len(seen))
	}
}
