package main

import "fmt"

type P struct{ X, Y int }

func try(name string, f func()) {
	defer func() {
		r := recover()
		if e, ok := r.(error); ok {
			fmt.Println(name, "panic:", e.Error())
			return
		}
		fmt.Println(name, "result:", r)
	}()
	f()
}

func main() {
	var pi *int
	var pp *P
	var ps *string
	m := map[string]P{"a": {1, 2}}
	mi := map[int]int{1: 1}
	try("map struct", func() { m["a"] = *pp; fmt.Println("not reached", m) })
	try("blank", func() { _ = *pi; fmt.Println("not reached") })
	try("multi", func() { mi[1], mi[2] = 5, *pi; fmt.Println("not reached", mi) })
	try("string", func() { s := *ps; fmt.Println("not reached", s) })
	try("arg", func() { fmt.Println("not reached", *pi) })
	try("store", func() { *pi = 3; fmt.Println("not reached") })
	try("cond", func() {
		var pb *bool
		if *pb {
			fmt.Println("not reached")
		}
	})
	try("binary", func() { x := 1 + *pi; fmt.Println("not reached", x) })
	try("iface", func() { var i interface{} = *pp; fmt.Println("not reached", i) })
	try("chan", func() { c := make(chan int, 1); c <- *pi; fmt.Println("not reached") })
	try("slice elem", func() { s := []int{0}; s[0] = *pi; fmt.Println("not reached") })
	try("append", func() { s := append([]int{}, *pi); fmt.Println("not reached", s) })
	try("return", func() { g := func() int { return *pi }; fmt.Println("not reached", g()) })
	fmt.Println(m, mi)
}
