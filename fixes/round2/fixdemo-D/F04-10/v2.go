package main

import "fmt"

type P struct{ X, Y int }

// valid dereferences keep working
func main() {
	x, s, b := 3, "s", true
	p := P{1, 2}
	px, ps, pb, pp := &x, &s, &b, &p
	ppx := &px
	m := map[int]int{}
	m[1] = *px
	m[2] = **ppx
	ms := map[string]P{}
	ms[*ps] = *pp
	if *pb {
		fmt.Println(m, ms)
	}
	*px++
	**ppx += 2
	*pp = P{5, 6}
	(*pp).X = 7
	var e *struct{}
	e = &struct{}{}
	fmt.Println(*e, x, p, !*pb)
	var pi *interface{}
	var i interface{}
	pi = &i
	fmt.Println(*pi)
	*pi = 4
	fmt.Println(*pi, i)
	var pf *func() int
	f := func() int { return 42 }
	pf = &f
	fmt.Println((*pf)())
}
