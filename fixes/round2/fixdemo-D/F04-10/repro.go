package main

import "fmt"

type P struct{ X, Y int }

func main() {
	m := map[int]int{2: 1}
	ps := []*int{nil}
	m[2] = *ps[0]
	fmt.Println("not reached", m)
}
