package main

import "fmt"

type T struct{ p *[2]int }

func main() {
	defer func() { fmt.Println("recovered:", recover()) }()
	t := T{}
	m := map[string][2]int{"a": {1, 1}}
	m["a"] = *t.p
	fmt.Println("not reached", m)
}
