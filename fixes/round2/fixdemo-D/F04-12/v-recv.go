package main

import "fmt"

func main() {
	ch := make(chan int, 3)
	ch <- 1
	ch <- 2
	close(ch)
	var ps []*int
	var oks []*bool
	var fs []func() (int, bool)
	for i := 0; i < 3; i++ {
		v, ok := <-ch
		ps = append(ps, &v)
		oks = append(oks, &ok)
		fs = append(fs, func() (int, bool) { return v, ok })
	}
	for i := range ps {
		fmt.Print(*ps[i], *oks[i], " ")
		fmt.Println(fs[i]())
	}
	// redeclared: assigned, not created
	c2 := make(chan string, 1)
	c2 <- "x"
	s := "init"
	p := &s
	s, ok := <-c2
	fmt.Println(s, ok, *p)
	close(c2)
	var t string
	q := &t
	t, ok = <-c2
	fmt.Println(t, ok, *q)
}
