package main

import "fmt"

func main() {
	m := map[int]string{1: "one"}
	// redeclared result or status: assigned in place
	r := "init"
	pr := &r
	r, ok := m[1]
	fmt.Println(r, ok, *pr)
	ok2 := true
	pok := &ok2
	s, ok2 := m[2]
	fmt.Println(s == "", ok2, *pok)
	// plain assignment
	var t string
	var b bool
	pt, pb := &t, &b
	for _, k := range []int{1, 2} {
		t, b = m[k]
		fmt.Println(t, b, *pt, *pb)
	}
	// blank
	_, ok3 := m[1]
	v3, _ := m[1]
	fmt.Println(ok3, v3)
}
