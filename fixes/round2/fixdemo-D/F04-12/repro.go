package main

import "fmt"

func main() {
	m := map[int]int{1: 1}
	var ps []*int
	for _, k := range []int{1, 2, 1} {
		r, ok := m[k]
		_ = ok
		ps = append(ps, &r)
	}
	for _, p := range ps {
		fmt.Print(*p, " ")
	}
	fmt.Println()
}
