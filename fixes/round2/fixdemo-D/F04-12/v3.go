package main

import "fmt"

var gm = map[string][]int{"x": {1, 2}}

func look(m map[string]*int, k string) (*int, *bool) {
	p, ok := m[k]
	return p, &ok
}

func main() {
	gv, gok := gm["x"]
	fmt.Println(gv, gok)
	one := 1
	m := map[string]*int{"a": &one}
	p1, o1 := look(m, "a")
	p2, o2 := look(m, "b")
	fmt.Println(*p1, *o1, p2 == nil, *o2)
	// constant key, interface values, nested maps
	mi := map[string]interface{}{"k": 1}
	mm := map[string]map[int]int{"k": {1: 1}}
	var is []*interface{}
	var ns []*map[int]int
	for i := 0; i < 2; i++ {
		v, ok := mi["k"]
		w, ok2 := mm["k"]
		_, _ = ok, ok2
		is, ns = append(is, &v), append(ns, &w)
		mi["k"] = "s"
		mm["k"] = nil
	}
	fmt.Println(*is[0], *is[1], *ns[0], *ns[1])
}
