package main

import (
	"fmt"
	"net/http"
)

func main() {
	h := http.Header{"A": {"1"}, "B": {"2"}}
	var ps []*[]string
	for _, k := range []string{"A", "Z", "B"} {
		if v, ok := h[k]; ok {
			ps = append(ps, &v)
		} else {
			ps = append(ps, &v)
		}
	}
	for _, p := range ps {
		fmt.Print(*p, len(*p), " ")
	}
	fmt.Println()
	// in a switch init and an if init inside a func literal called repeatedly
	m := map[int]int{1: 10}
	f := func(k int) *int {
		switch v, ok := m[k]; {
		case ok:
			return &v
		default:
			return &v
		}
	}
	a, b, c := f(1), f(2), f(1)
	*a++
	fmt.Println(*a, *b, *c, m)
}
