package main

import "fmt"

type K struct{ a, b int }

func main() {
	m := map[K][2]int{{1, 1}: {1, 1}}
	var ps []*[2]int
	var gs []func() bool
	for i := 0; i < 3; i++ {
		v, ok := m[K{i, i}]
		ps = append(ps, &v)
		gs = append(gs, func() bool { return ok })
		m[K{i + 1, i + 1}] = [2]int{v[0] + 1, i}
	}
	for i := range ps {
		fmt.Print(*ps[i], gs[i](), " ")
	}
	fmt.Println(len(m))
}
