package main

import "fmt"

type P struct{ X, Y int }

func main() {
	m := map[string]P{"a": {1, 2}, "c": {3, 4}}
	var ps []*P
	var oks []*bool
	var fs []func() (P, bool)
	for _, k := range []string{"a", "b", "c", "a"} {
		r, ok := m[k]
		ps, oks = append(ps, &r), append(oks, &ok)
		fs = append(fs, func() (P, bool) { return r, ok })
		r.X += 10
	}
	for i := range ps {
		fmt.Print(*ps[i], *oks[i], " ")
		fmt.Println(fs[i]())
	}
	fmt.Println(m)
}
