package main

import "fmt"

func main() {
	// closures capture the variable of their iteration, and see later updates of it
	var get []func() []int
	var inc []func()
	for i := 0; i < 3; i++ {
		v := []int{i}
		w := [1]int{i}
		m := map[int]int{0: i}
		get = append(get, func() []int { return []int{v[0], w[0], m[0], len(v)} })
		inc = append(inc, func() { v = append(v, 0); w[0]++; m[0] += 10 })
	}
	for _, f := range inc {
		f()
	}
	inc[2]()
	for _, g := range get {
		fmt.Println(g())
	}
}
