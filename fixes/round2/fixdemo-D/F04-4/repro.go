package main

import "fmt"

func main() {
	var ps []*[2]int
	var fs []func() int
	var qs []*[]int
	var ms []*map[int]int
	for i := 0; i < 3; i++ {
		v := [2]int{i, i}
		ps = append(ps, &v)
		fs = append(fs, func() int { return v[0] })
		s := []int{i}
		qs = append(qs, &s)
		m := map[int]int{i: i}
		ms = append(ms, &m)
	}
	for i := range ps {
		fmt.Println(*ps[i], fs[i](), *qs[i], *ms[i])
	}
}
