package main

import (
	"fmt"
	"image"
	"net/url"
)

func main() {
	// types from compiled packages
	var hs []*url.Values
	var ps []*[]image.Point
	var as []*[2]image.Point
	for i := 0; i < 3; i++ {
		h := url.Values{"k": {fmt.Sprint(i)}}
		p := []image.Point{{i, i}}
		a := [2]image.Point{{X: i}, {Y: i}}
		hs, ps, as = append(hs, &h), append(ps, &p), append(as, &a)
	}
	for i := range hs {
		fmt.Println(*hs[i], *ps[i], *as[i])
	}
}
