package main

import "fmt"

func main() {
	// plain assignment writes into the existing variable (no new variable)
	v := [2]int{1, 2}
	s := []int{1}
	m := map[string]int{"a": 1}
	pv, ps, pm := &v, &s, &m
	f := func() []int { return []int{v[0], len(s), len(m)} }
	for i := 0; i < 2; i++ {
		v = [2]int{i + 5, 0}
		s = []int{1, 2, 3}
		m = map[string]int{}
		fmt.Println(*pv, *ps, *pm)
		fmt.Println(f())
	}
	// var declarations in a loop
	var qs []*[]string
	for _, w := range []string{"a", "b"} {
		var t = []string{w}
		var u []string = []string{w, w}
		qs = append(qs, &t, &u)
	}
	for _, q := range qs {
		fmt.Print(*q, " ")
	}
	fmt.Println()
}
