package main

import "fmt"

var g = []int{1, 2}
var ga = [2]string{"a", "b"}
var gm = map[string][]int{"x": {1}}

type T struct {
	s []int
	a [2]int
	m map[int]int
}

func mk(i int) (*[]int, *[1]int) {
	s := []int{i}
	a := [1]int{i}
	return &s, &a
}

func main() {
	pg := &g
	g = []int{3}
	fmt.Println(g, *pg, ga, gm)
	// recursion and repeated calls give distinct variables
	s1, a1 := mk(1)
	s2, a2 := mk(2)
	fmt.Println(*s1, *a1, *s2, *a2)
	// literals as fields, arguments, interface values, map values
	var ts []T
	var is []interface{}
	for i := 0; i < 2; i++ {
		t := T{s: []int{i}, a: [2]int{i, i}, m: map[int]int{i: i}}
		ts = append(ts, t)
		var e interface{} = []int{i}
		is = append(is, e, [1]int{i}, map[int]int{i: i})
	}
	fmt.Println(ts, is)
	// goroutines
	done := make(chan []int)
	for i := 0; i < 3; i++ {
		v := []int{i}
		go func() { done <- v }()
	}
	sum := 0
	for i := 0; i < 3; i++ {
		sum += (<-done)[0]
	}
	fmt.Println(sum)
}
