package main

import "fmt"

func main() {
	// labelled loops, switch and if bodies, shadowing
	v := []int{-1}
	pv := &v
	var ps []*[]int
outer:
	for i := 0; i < 3; i++ {
		switch {
		case i == 1:
			v := []int{10 * i}
			ps = append(ps, &v)
			continue outer
		default:
			if v := []int{i}; true {
				ps = append(ps, &v)
			}
		}
		for _, j := range []int{7, 8} {
			v := [1]int{j}
			q := v[:]
			ps = append(ps, &q)
		}
	}
	for _, p := range ps {
		fmt.Print(*p, " ")
	}
	fmt.Println(v, *pv)
}
