package main

import "fmt"

type P struct{ X, Y int }
type A [2]P
type M map[string]P
type S []P

func main() {
	// named types, nested literals, addresses kept across iterations
	var pa []*A
	var pm []*M
	var ps []*S
	for i := 0; i < 3; i++ {
		a := A{{i, i}, {i + 1, i + 1}}
		m := M{"k": {i, i}}
		s := S{{i, 0}, {0, i}}
		pa, pm, ps = append(pa, &a), append(pm, &m), append(ps, &s)
	}
	for i := range pa {
		fmt.Println(*pa[i], *pm[i], *ps[i])
	}
}
