package main

import "fmt"

type P struct{ X, Y int }

func sum(pa *[4]P) (s int) {
	for _, v := range pa {
		s += v.X + v.Y
	}
	for i := range pa {
		pa[i].X++
	}
	return s + pa[0].X
}

func main() {
	a := [4]P{{1, 2}, {3, 4}}
	fmt.Println(sum(&a), a)
	pa := &a
	fmt.Println(sum(pa), *pa, len(pa))
}
