package main

import "fmt"

func main() {
	s := "x"
	a := [2]string{"a", "b"}
	pa := &a
	n := 0
	// key only, then key and value, nested
	for i := range pa {
		for j, w := range pa {
			n += i * j
			s += w
		}
	}
	fmt.Println(s, n, pa[0], *pa, pa == &a)
	// mutation during iteration is visible (no copy through a pointer)
	b := [3]int{1, 2, 3}
	pb := &b
	for i, v := range pb {
		if i == 0 {
			pb[2] = 30
		}
		fmt.Println(i, v)
	}
	fmt.Println(*pb)
}
