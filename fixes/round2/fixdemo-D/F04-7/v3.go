package main

import "fmt"

type T struct {
	p *[3]float64
	n int
}

func main() {
	t := T{p: &[3]float64{1.5, 2.5, 3.5}, n: 9}
	k := 7
	for i, v := range t.p {
		fmt.Println(i, v, k, t.n)
	}
	fmt.Println(k, t.n, *t.p)
	// range over a pointer declared just before, in a closure
	f := func() int {
		q := t.p
		c := 0
		for i := range q {
			c += i
		}
		q[0] = 8
		return c
	}
	fmt.Println(f(), t.p[0])
}
