package main

import "fmt"

func main() {
	a := [3][2]int{{1, 2}, {3, 4}, {5, 6}}
	pa := &a
	for i, row := range pa {
		pr := &row
		for j, v := range pr {
			fmt.Print(i, j, v, " ")
		}
		pr[0] = 0
	}
	fmt.Println()
	fmt.Println(a, *pa)
	var fs []func() int
	for _, row := range pa {
		fs = append(fs, func() int { return row[1] })
	}
	for _, f := range fs {
		fmt.Print(f(), " ")
	}
	fmt.Println()
}
