package main

import "fmt"

type P struct{ X, Y int }

func main() {
	a := [3]int{1, 2, 3}
	pa := &a
	for i, v := range pa {
		fmt.Println(i, v)
	}
	pa[1] = 5
	fmt.Println(a)
}
