package main

import "fmt"

type A [2]int

func main() {
	x := 42
	pa := &A{5, 6}
	for i, v := range pa {
		fmt.Println(i, v, x)
	}
	fmt.Println(x, *pa)
	pp := &pa
	for _, v := range *pp {
		fmt.Println(v)
	}
	fmt.Println(**pp)
}
