package main

import "fmt"

func main() {
	// the pointer is assigned to an existing variable: the pointee is still new each time
	var p *[2]int
	var keep []*[2]int
	for i := 0; i < 3; i++ {
		p = &[2]int{i, i}
		keep = append(keep, p)
	}
	p[0] = 100
	for _, k := range keep {
		fmt.Print(*k, " ")
	}
	fmt.Println()
	var q *[]int
	ch := make(chan *[]int, 3)
	for i := 0; i < 3; i++ {
		q = &[]int{i}
		ch <- q
	}
	close(ch)
	for r := range ch {
		fmt.Print(*r, " ")
	}
	fmt.Println(*q)
}
