package main

import "fmt"

type N struct {
	v    *[1]int
	next *N
}

func mk(i int) *[3]int { return &[3]int{i, i, i} }

func build(n int) *N {
	if n == 0 {
		return nil
	}
	return &N{v: &[1]int{n}, next: build(n - 1)}
}

func main() {
	p, q := mk(1), mk(2)
	p[0] = 9
	fmt.Println(*p, *q, p != q)
	for l := build(3); l != nil; l = l.next {
		fmt.Print(*l.v, " ")
	}
	fmt.Println()
}
