package main

import (
	"fmt"
	"image"
)

type T struct{ p *[]image.Point }

func main() {
	var ts []T
	var ps []*[2]image.Point
	var ms []*map[string]image.Point
	i := 0
loop:
	ts = append(ts, T{&[]image.Point{{i, i}}})
	ps = append(ps, &[2]image.Point{{X: i}})
	ms = append(ms, &map[string]image.Point{"k": {Y: i}})
	if i++; i < 3 {
		goto loop
	}
	for k := range ts {
		fmt.Println(*ts[k].p, *ps[k], *ms[k])
	}
}
