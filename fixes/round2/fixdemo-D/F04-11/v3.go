package main

import "fmt"

func main() {
	// pointer literals as elements, map values, arguments and in closures
	var fs []func() *[]int
	ms := map[int]*[2]int{}
	var es [][]*[1]int
	for i := 0; i < 3; i++ {
		fs = append(fs, func() *[]int { return &[]int{i} })
		ms[i] = &[2]int{i, -i}
		es = append(es, []*[1]int{&[1]int{i}, &[1]int{i + 10}})
	}
	x, y := fs[0](), fs[0]()
	*x = append(*x, 5)
	fmt.Println(*x, *y, *fs[2]())
	fmt.Println(*ms[0], *ms[1], *ms[2])
	for _, e := range es {
		fmt.Print(*e[0], *e[1], " ")
	}
	fmt.Println()
}
