package main

import "fmt"

func main() {
	var ps []*[2]int
	for i := 0; i < 2; i++ {
		p := &[2]int{i, i}
		ps = append(ps, p)
	}
	fmt.Println(*ps[0], *ps[1])
}
