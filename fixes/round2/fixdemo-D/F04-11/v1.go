package main

import "fmt"

type P struct{ X, Y int }

func main() {
	var a []*[2]P
	var s []*[]string
	var m []*map[int]bool
	var t []*P
	for i := 0; i < 3; i++ {
		a = append(a, &[2]P{{i, i}})
		s = append(s, &[]string{fmt.Sprint(i)})
		m = append(m, &map[int]bool{i: true})
		t = append(t, &P{i, i})
	}
	for i := range a {
		fmt.Println(*a[i], *s[i], *m[i], *t[i])
	}
	fmt.Println(a[0] != a[1], s[0] != s[1], m[0] != m[1])
}
