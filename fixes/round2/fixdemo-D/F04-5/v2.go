package main

import "fmt"

func main() {
	// a redeclared variable that also appears on the right-hand side
	a := 1
	pa := &a
	a, c := c0(), a
	fmt.Println(a, c, *pa)
	a, d := a+c, a*10
	fmt.Println(a, d, *pa)
	*pa = 100
	fmt.Println(a)

	// in a nested scope the variable is new: the outer one is untouched
	b := 1
	pb := &b
	{
		b, e := 2, 3
		fmt.Println(b, e, *pb)
	}
	if b, e := 4, 5; b < e {
		fmt.Println(b, e, *pb)
	}
	fmt.Println(b, *pb)
}

func c0() int { return 2 }
