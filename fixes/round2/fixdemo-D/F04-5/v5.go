package main

import "fmt"

type T struct{ n int }

func (t *T) inc() { t.n++ }

func main() {
	t := T{1}
	m := t.inc // bound to &t
	t, u := T{10}, T{20}
	m()
	fmt.Println(t, u)

	s := []int{1, 2, 3}
	ps := &s
	s, k := append(s, 4), len(s)
	fmt.Println(s, k, *ps)

	mp := map[string]int{"a": 1}
	pm := &mp
	mp, ok := map[string]int{"b": 2}, true
	fmt.Println(mp, ok, *pm)

	var i interface{} = 1
	pi := &i
	i, j := "s", 2.5
	fmt.Println(i, j, *pi)
}
