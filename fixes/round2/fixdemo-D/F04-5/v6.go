package main

import "fmt"

var g = 1

func main() {
	// a global is shadowed, not redeclared
	pg := &g
	g, h := 2, 3
	fmt.Println(g, h, *pg)
	// blank and redeclared mixed
	a := 1
	pa := &a
	_, a, b := 0, 5, 6
	fmt.Println(a, b, *pa)
	switch a, c := 7, 8; {
	case a < c:
		a, d := 9, 10
		fmt.Println(a, d, *pa)
	}
	fmt.Println(a, *pa)
}
