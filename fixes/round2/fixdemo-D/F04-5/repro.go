package main

import "fmt"

func main() {
	a := 1
	pa := &a
	a, c := 2, 3
	fmt.Println(a, c, *pa)
}
