package main

import (
	"errors"
	"fmt"
	"time"
)

type I interface{ M() int }
type A int

func (a A) M() int { return int(a) }

func f(e error, i I) (error, I, int) {
	pe, pi := &e, &i
	e, i, n := errors.New("new"), A(2), 3
	return *pe, *pi, n
}

func main() {
	// a redeclared variable keeps its type
	var d time.Duration
	var fl float64
	var by byte
	pd := &d
	d, fl, by, x := 5, 2, 'a', 1
	fmt.Println(d, fl, by, x, *pd)
	fmt.Printf("%T %T %T\n", d, fl, by)
	e, i, n := f(nil, A(1))
	fmt.Println(e, i.M(), n)
	var any interface{} = 1
	pa := &any
	any, y := []int{1}, 2
	fmt.Println(any, y, *pa)
}
