package main

import (
	"errors"
	"fmt"
)

func op(i int) (int, error) {
	if i > 1 {
		return 0, errors.New("too big")
	}
	return i, nil
}

func main() {
	// the usual err redeclaration chain, with err captured by a deferred closure
	var err error
	defer func() { fmt.Println("deferred sees:", err) }()
	a, err := op(1)
	pe := &err
	b, err := op(2)
	fmt.Println(a, b, err, *pe)
	x, err := 1, error(nil)
	fmt.Println(x, err, *pe)
	y, err := 2, errors.New("last")
	fmt.Println(y, err, *pe)
}
