package main

import "fmt"

type P struct{ X, Y int }

func f(a int, s string) (*int, *string, int, string) {
	pa, ps := &a, &s
	a, s, n := a+1, s+"!", 7 // parameters are redeclared (assigned)
	_ = n
	return pa, ps, a, s
}

func main() {
	pa, ps, a, s := f(1, "x")
	fmt.Println(*pa, *ps, a, s)

	p := P{1, 2}
	pp := &p
	g := func() P { return p }
	p, q := P{3, 4}, P{5, 6}
	fmt.Println(*pp, g(), p, q)

	str := "a"
	h := func() string { return str }
	x, str := 1, "b"
	fmt.Println(h(), str, x)
}
