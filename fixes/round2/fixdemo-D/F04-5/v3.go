package main

import "fmt"

func main() {
	var fs []func() int
	var ps []*int
	for i := 0; i < 3; i++ {
		a := i
		fs = append(fs, func() int { return a })
		ps = append(ps, &a)
		a, b := a*10, i // assigns the a of this iteration
		_ = b
	}
	for i := range fs {
		fmt.Println(fs[i](), *ps[i])
	}
}
