package main

import "fmt"

func g() (p int, r interface{}) {
	defer func() { p, r = 9, recover() }()
	panic("boom")
}

func main() {
	fmt.Println(g())
}
