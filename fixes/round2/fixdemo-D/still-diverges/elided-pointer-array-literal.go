package main

import "fmt"

func main() {
	es := []*[1]int{{10}}
	fmt.Println(*es[0])
}
