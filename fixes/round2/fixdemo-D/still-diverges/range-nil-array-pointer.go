package main

import "fmt"

func main() {
	var pn *[2]int
	for i := range pn { // allowed by the spec: only the length is needed
		fmt.Println("nil", i)
	}
}
