package main

import "fmt"

type I interface{ M() }
type A int

func (A) M() {}

func main() {
	for _, x := range []interface{}{1, "a"} {
		v, ok := x.(int)
		fmt.Println(v, ok)
	}
	for _, x := range []interface{}{A(1), "a"} {
		v, ok := x.(I)
		fmt.Println(v, ok)
	}
	for _, x := range []interface{}{fmt.Errorf("e"), "a"} {
		v, ok := x.(error)
		fmt.Println(v, ok)
	}
}
