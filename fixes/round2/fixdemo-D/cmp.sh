#!/bin/bash
# usage: cmp.sh file.go ... ; compares go run and the patched interpreter (stdout+exit status, stderr first line kind)
export GOFLAGS=-mod=mod GOPROXY=off GOSUMDB=off GOTOOLCHAIN=local
BIN=${BIN:-/tmp/fixwt2-D/yaegi-bin}
rc=0
for f in "$@"; do
  f=$(readlink -f $f)
  exp=$(cd /tmp && go run $f 2>/tmp/fixwt2-D/fixdemo/.goerr; echo "exit=$?")
  got=$($BIN run $f 2>/tmp/fixwt2-D/fixdemo/.yerr; echo "exit=$?")
  # go run exit status for panic is 1 (prints exit status 2); normalise non-zero
  exp=$(echo "$exp" | sed 's/exit=[1-9][0-9]*/exit=nonzero/')
  got=$(echo "$got" | sed 's/exit=[1-9][0-9]*/exit=nonzero/')
  if [ "$exp" == "$got" ]; then echo "OK   $f"; else echo "DIFF $f"; echo "--- go"; echo "$exp"; head -3 /tmp/fixwt2-D/fixdemo/.goerr; echo "--- yaegi"; echo "$got"; head -5 /tmp/fixwt2-D/fixdemo/.yerr; rc=1; fi
done
exit $rc
