package main

import "fmt"

func main() {
	p := &[3]int{1, 2, 5}
	defer func() { fmt.Println("recovered:", recover() != nil) }()
	i := 3
	q := &p[i]
	fmt.Println(*q)
}
