package main

import "fmt"

type P struct{ X, Y int }

func main() {
	p := &[3]P{{1, 2}, {3, 4}}
	q := &p[1]
	q.X = 9
	r := &p[2].Y
	*r = 11
	fmt.Println(*p, *q, *r)
	i := 0
	s := &p[i+1].X
	*s++
	fmt.Println(p[1])
}
