package main

import "fmt"

func f() *[2]float64 { return &[2]float64{1, 2} }

var gp = &[2]int{1, 2}

func main() {
	p := f()
	q := &(p[1])
	*q = 2.5
	fmt.Println(*p)
	g := &gp[0]
	*g = 5
	fmt.Println(*gp)
	func() {
		h := &gp[1]
		*h = 6
	}()
	fmt.Println(*gp)
	s := (&p[0])
	fmt.Println(*s, s == &p[0], s == &p[1])
}
