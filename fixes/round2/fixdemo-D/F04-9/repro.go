package main

import "fmt"

type P struct{ X, Y int }

func main() {
	p := &[3]int{1, 2, 5}
	q := &p[0]
	*q = 7
	fmt.Println(*p)
}
