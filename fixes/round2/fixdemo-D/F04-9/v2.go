package main

import "fmt"

type T struct{ a *[2]string }

func set(p *string, v string) { *p = v }

func main() {
	t := T{a: &[2]string{"x", "y"}}
	set(&t.a[1], "z")
	pt := &t
	set(&pt.a[0], "w")
	fmt.Println(*t.a)
	pp := &t.a
	set(&(*pp)[0], "v")
	fmt.Println(*t.a)
}
