package main

import "fmt"

func main() {
	g := &[2][2]int{{1, 2}, {3, 4}}
	row := &g[1]
	row[0] = 30
	cell := &g[0][1]
	*cell = 20
	c2 := &row[1]
	*c2 = 40
	fmt.Println(*g)
	sl := g[:]
	x := &sl[0][0]
	*x = 10
	fmt.Println(*g)
}
