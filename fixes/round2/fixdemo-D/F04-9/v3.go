package main

import "fmt"

type A [3]int

func main() {
	pa := &A{1, 2, 3}
	var ps []*int
	for i := 0; i < len(pa); i++ {
		ps = append(ps, &pa[i])
	}
	for _, p := range ps {
		*p *= 10
	}
	fmt.Println(*pa)
	m := map[string]*A{"k": pa}
	e := &m["k"][2]
	*e = -1
	fmt.Println(*pa, *m["k"])
}
