package main

import "fmt"

func main() {
	// arrays and pointers as elements
	g := [][2]int{{1, 1}, {2, 2}}
	g = append(g[:0], g[1], g[0])
	fmt.Println(g)
	x, y := 1, 2
	ps := []*int{&x, &y}
	ps = append(ps[:0], ps[1], ps[0])
	fmt.Println(*ps[0], *ps[1])
	fs := []func() int{func() int { return 1 }, func() int { return 2 }}
	fs = append(fs[:0], fs[1], fs[0])
	fmt.Println(fs[0](), fs[1]())
	ss := []string{"a", "b"}
	defer func(s []string) { fmt.Println(s) }(append(ss[:0], ss[1], ss[0]))
	go func() {}()
}
