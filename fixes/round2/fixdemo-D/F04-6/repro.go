package main

import "fmt"

func main() {
	s := []int{1, 2, 3}
	t := append(s[:0], s[1], s[0])
	fmt.Println(t)
}
