package main

import "fmt"

func main() {
	// growth: no aliasing with the old array, and the old array is left alone
	s := make([]int, 2, 2)
	s[0], s[1] = 1, 2
	t := append(s, s[1], s[0])
	fmt.Println(s, t, len(t), cap(t) >= 4)
	// no growth: shares the backing array
	u := make([]int, 2, 8)
	u[0], u[1] = 1, 2
	v := append(u, u[1], u[0])
	v[0] = 9
	fmt.Println(u, v, len(v), cap(v))
	// nil slice and many operands
	var w []int
	w = append(w, 1, 2, 3)
	w = append(w[:1], w[2], w[1], w[0], w[2])
	fmt.Println(w)
	var x [][]int
	x = append(x, w[:1], w[1:2])
	x = append(x[:0], x[1], x[0])
	fmt.Println(x)
}
