package main

import "fmt"

type T struct{ s []int }

func swap(s []int) []int { return append(s[:0], s[1], s[0]) }

func main() {
	t := T{s: []int{1, 2, 3}}
	t.s = append(t.s[:0], t.s[2], t.s[1], t.s[0])
	fmt.Println(t.s)
	fmt.Println(swap([]int{7, 8}))
	m := map[string][]int{"k": {1, 2}}
	m["k"] = append(m["k"][:0], m["k"][1], m["k"][0])
	fmt.Println(m)
	a := [3]int{1, 2, 3}
	r := append(a[:0], a[2], a[1], a[0])
	fmt.Println(a, r)
	for i := 0; i < 2; i++ {
		r = append(r[:0], r[1], r[2], r[0])
		fmt.Println(r, a)
	}
}
