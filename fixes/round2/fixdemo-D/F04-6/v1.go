package main

import "fmt"

type P struct{ X, Y int }

type S []string

func main() {
	// rotate in place
	s := []string{"a", "b", "c"}
	s = append(s[:0], s[2], s[0], s[1])
	fmt.Println(s)

	ps := []P{{1, 2}, {3, 4}}
	ps = append(ps[:0], ps[1], ps[0])
	fmt.Println(ps)

	n := S{"x", "y"}
	n = append(n[:0], n[1], n[0], "z")
	fmt.Println(n, len(n))

	// operands that are fields / derefs of elements
	q := []int{1, 2, 3, 4}
	p3 := &q[3]
	q = append(q[:1], q[2], *p3, q[1])
	fmt.Println(q)
}
