package main

import "fmt"

type I interface{ M() int }
type A int

func (a A) M() int { return int(a) }

func main() {
	// interface elements
	is := []I{A(1), A(2), A(3)}
	is = append(is[:0], is[2], is[1], is[0])
	for _, i := range is {
		fmt.Print(i.M(), " ")
	}
	fmt.Println()
	es := []interface{}{1, "two", 3.0}
	es = append(es[:0], es[1], es[2], es[0])
	fmt.Println(es...)
	// mixed with constants and untyped operands
	fs := []float64{1.5, 2.5}
	fs = append(fs[:0], 2, fs[0], fs[1]+1, 1<<2)
	fmt.Println(fs)
	bs := []byte("ab")
	bs = append(bs[:0], bs[1], bs[0], 'c')
	fmt.Println(string(bs))
}
