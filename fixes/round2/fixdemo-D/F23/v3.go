package main

import "fmt"

type T struct {
	name string
	s    []string
}

type N int
type SS []string

func (t *T) info() (string, int, bool)   { return t.name, len(t.s), cap(t.s) > 0 }
func (t T) more(x string) (*T, SS, N, N) { return &t, append(SS(t.s), x), N(len(t.s)), N(len(x)) }

func main() {
	t := &T{"t", []string{"a", "b"}}
	fmt.Println(t.info())
	p, ss, n, k := t.more("c")
	fmt.Println(p.name, ss, n, k)
	f := func(m map[int]string) (m2 map[int]string, n int, ok bool) {
		return m, len(m), len(m) > 1
	}
	fmt.Println(f(map[int]string{1: "x", 2: "y"}))
}
