package main

import "fmt"

type T struct{ n int }

func (t T) M() int { return t.n }

type I interface{ M() int }

func g() T { return T{4} }

func f() (T, I) { return T{1}, g() }

func h() (T, interface{}, int) { return T{1}, g(), g().n }

func k() (int, T) { return 1, g() }

func main() {
	a, b := f()
	fmt.Println(a, b.M())
	fmt.Println(h())
	fmt.Println(k())
}
