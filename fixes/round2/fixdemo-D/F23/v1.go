package main

import "fmt"

type Pt struct{ X, Y int }

func a(s []int, m map[string]int) (string, int, int, int) { return "a", len(s), cap(s), len(m) }
func b(s []int) (Pt, []int, int)                          { return Pt{1, 2}, append(s, 4, 5), copy(s, []int{9}) }
func c(z complex128) (Pt, float64, float64, complex128)   { return Pt{}, real(z), imag(z), complex(2, 3) }
func d() (string, *Pt, []Pt, map[int]Pt, chan int)        { return "d", new(Pt), make([]Pt, 2), make(map[int]Pt), make(chan int, 3) }
func g() (p Pt, r interface{}) {
	defer func() { p = Pt{9, 9}; r = recover() }()
	panic("boom")
}

func main() {
	fmt.Println(a(make([]int, 2, 5), map[string]int{"x": 1}))
	fmt.Println(b([]int{1, 2, 3}))
	fmt.Println(c(complex(1.5, -2)))
	s, p, ps, m, ch := d()
	fmt.Println(s, *p, ps, m, cap(ch))
	fmt.Println(g())
}
