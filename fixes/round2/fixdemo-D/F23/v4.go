package main

import "fmt"

type Pt struct{ X, Y int }

// the builtin is the first operand, the last, or both; nested builtins; recursion
func a(s []int) (int, Pt)           { return len(s), Pt{1, 2} }
func b(s []int) (int, Pt, int)      { return len(s), Pt{3, 4}, cap(s) }
func c(s [][]int) (Pt, int)         { return Pt{}, len(s[len(s)-1]) }
func d(s []int, n int) (Pt, int)    { if n == 0 { return Pt{n, n}, len(s) }; return d(append(s, n), n-1) }
func e(ch chan int) (string, int)   { return "ch", len(ch) + cap(ch) }
func f(s string) (Pt, int, [2]int)  { return Pt{}, len(s), [2]int{len(s), len(s) * 2} }
func g(a *[4]int) (p *[4]int, n int) { return a, len(a) }

func main() {
	fmt.Println(a([]int{1}))
	fmt.Println(b(make([]int, 1, 3)))
	fmt.Println(c([][]int{{1}, {1, 2, 3}}))
	fmt.Println(d(nil, 3))
	ch := make(chan int, 4)
	ch <- 1
	fmt.Println(e(ch))
	fmt.Println(f("xyz"))
	p, n := g(&[4]int{})
	fmt.Println(*p, n)
}
