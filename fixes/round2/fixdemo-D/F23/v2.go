package main

import "fmt"

type Pt struct{ X, Y int }

type I interface{ Len() int }

type L int

func (l L) Len() int { return int(l) }

// interface results at the position of the builtin, and before it
func a(s string) (Pt, interface{})         { return Pt{1, 2}, len(s) }
func b(s string) (interface{}, int)        { return s, len(s) }
func c(s []int) (I, int, interface{})      { return L(3), len(s), cap(s) }
func d(s []int) (int, I, []int)            { return len(s), L(len(s)), append(s, 1) }
func e(s []int) (error, int)               { return nil, len(s) }
func f(s []int) (x interface{}, y int, z I) { return new(int), len(s), L(cap(s)) }

func main() {
	fmt.Println(a("abc"))
	fmt.Println(b("abcd"))
	i, n, x := c([]int{1, 2})
	fmt.Println(i.Len(), n, x)
	n, i, s := d([]int{5})
	fmt.Println(n, i.Len(), s)
	fmt.Println(e([]int{1}))
	p, y, z := f(make([]int, 1, 4))
	fmt.Println(*(p.(*int)), y, z.Len())
}
