package main

import (
	"fmt"
	"strings"
)

type Pt struct{ X, Y int }

func split(s string) (parts []string, n int, err error) {
	parts = strings.Split(s, ",")
	if len(parts) == 1 {
		return nil, len(s), fmt.Errorf("no comma in %q (%d)", s, len(s))
	}
	return parts, len(parts), nil
}

func two(s []Pt) (first Pt, n, c int) {
	if len(s) > 0 {
		return s[0], len(s), cap(s)
	}
	return
}

func main() {
	fmt.Println(split("a,b,c"))
	fmt.Println(split("abc"))
	fmt.Println(two([]Pt{{1, 2}, {3, 4}}))
	fmt.Println(two(nil))
	var fs []func() (string, int)
	for _, w := range []string{"x", "yy"} {
		fs = append(fs, func() (string, int) { return w, len(w) })
	}
	for _, f := range fs {
		fmt.Println(f())
	}
}
