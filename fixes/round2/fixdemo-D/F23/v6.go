package main

import "fmt"

type I interface{ Hello() string }

type T struct{ Name string }

func (t *T) Hello() string { return "Hello " + t.Name }

type S []int

func (s S) Hello() string { return fmt.Sprint("S", len(s)) }

// builtin results assigned or returned as non-empty interface values
func a() (int, I)          { return 1, new(T) }
func b(s S) (I, int, I)    { return append(s, 1), len(s), make(S, 3) }
func c() (n int, e interface{}, i I) {
	var v I = new(T)
	return len(v.Hello()), new(int), v
}

func main() {
	var i I = new(T)
	fmt.Println(i.Hello())
	n, j := a()
	fmt.Println(n, j.Hello())
	x, m, y := b(S{1, 2})
	fmt.Println(x.Hello(), m, y.Hello())
	k, e, l := c()
	fmt.Println(k, *(e.(*int)), l.Hello())
}
