package main

import "fmt"

type Pt struct{ X, Y int }

func E(p Pt, m map[string][]int, q *Pt) (Pt, int, *Pt) { return p, len(m["a"]), q }

func main() {
	a, b, c := E(Pt{3, 4}, map[string][]int{"a": {1, 2}}, &Pt{1, 2})
	fmt.Println(a, b, *c)
}
