#!/bin/sh
# usage: run.sh /path/to/yaegi-bin ; compares go run and the interpreter on every program
export GOFLAGS=-mod=mod GOPROXY=off GOSUMDB=off GOTOOLCHAIN=local
bin=${1:-../../yaegi-bin}
cd "$(dirname "$0")"
rc=0
for f in p*.go; do
	go run "$f" > /tmp/F05-18.want 2>&1
	"$bin" run "$f" > /tmp/F05-18.got 2>&1
	if cmp -s /tmp/F05-18.want /tmp/F05-18.got; then echo "ok   $f"; else echo "DIFF $f"; diff /tmp/F05-18.want /tmp/F05-18.got; rc=1; fi
done
exit $rc
