package main

import (
	"fmt"
	"sort"
)

type Inner struct {
	name string
	s    []int
	n    int
}

func (in Inner) String() string     { return "Inner(" + in.name + ")" }
func (in *Inner) Len() int          { in.n++; return len(in.s) }
func (in Inner) Less(i, j int) bool { return in.s[i] < in.s[j] }
func (in Inner) Swap(i, j int) {
	fmt.Println("swap sees n =", in.n)
	in.s[i], in.s[j] = in.s[j], in.s[i]
}

type OuterP struct {
	*Inner
	tag int
}

type OuterV struct {
	Inner
	tag int
}

func main() {
	in := Inner{name: "a", s: []int{3, 1, 2}}
	op := OuterP{&in, 1}
	ov := OuterV{in, 2}

	var s1 fmt.Stringer = op  // value holding a pointer to in
	var s2 fmt.Stringer = &op // pointer
	var s3 fmt.Stringer = ov  // copy
	var s4 fmt.Stringer = &ov // pointer to ov
	in.name = "b"
	ov.name = "c"
	fmt.Println(s1, s2, s3, s4)
	fmt.Println(s1.String(), s2.String(), s3.String(), s4.String())

	g1 := op.String // copies *op.Inner now
	g2 := ov.String
	in.name = "d"
	ov.name = "e"
	fmt.Println(g1(), g2())

	in2 := Inner{name: "z"}
	op.Inner = &in2
	fmt.Println(s1, s2) // s1 keeps &in, s2 sees the new pointer

	sort.Sort(OuterP{&in, 3})
	fmt.Println(in.s, in.n)
	ov.s = []int{9, 8, 7}
	sort.Sort(&ov)
	fmt.Println(ov.s, ov.n)
}
