// Still diverging after the F05-18 repair (not caused by 3081633, present before it too):
// a type assertion from a script interface to a host interface, x.(fmt.Stringer), builds the
// wrapper by evaluating again the node the interface value was made from (typeAssert calls
// genInterfaceWrapper(val.node, rtype)(f)), not from the value held by the interface: with a
// non pointer dynamic value it sees the variable as it is at the assertion ("P two"), Go
// prints "P one". Same pattern in getBinValue.
package main

import "fmt"

type Named interface {
	Name() string
	String() string
}

type P struct{ name string }

func (p P) Name() string   { return p.name }
func (p P) String() string { return "P " + p.name }

type Holder struct {
	N Named
	x int
}

func main() {
	p := P{"one"}
	hv := Holder{p, 2}
	var n Named = p
	p.name = "two"
	fmt.Println(hv.N.Name(), n.Name())
	var s2 fmt.Stringer = hv.N.(fmt.Stringer)
	var s3 fmt.Stringer = n.(fmt.Stringer)
	var s4 fmt.Stringer = n
	p.name = "three"
	fmt.Println(hv.N.Name(), n.Name())
	fmt.Println(s2.String(), s3.String(), s4.String())
}
