package main

import (
	"errors"
	"fmt"
)

type N struct{ name string }

func (n N) String() string { return "N(" + n.name + ")" }

type E struct{ msg string }

func (e E) Error() string { return "E: " + e.msg }

type PE struct{ msg string }

func (e *PE) Error() string { return "PE: " + e.msg }

func main() {
	v := N{"a"}
	var s1 fmt.Stringer = &v // pointer: sees later changes
	var s2 fmt.Stringer = v  // value: copy
	v.name = "x"
	fmt.Println(s1, s2)
	fmt.Println(s1.String(), s2.String())
	fmt.Printf("%v %s %v\n", s1, s1, s2)

	e := E{"first"}
	var err1 error = &e
	var err2 error = e
	e.msg = "second"
	fmt.Println(err1, "|", err2)
	fmt.Println(err1.Error(), "|", err2.Error())
	w := fmt.Errorf("wrap: %w", err1)
	e.msg = "third"
	fmt.Println(w, "|", errors.Unwrap(w))

	pe := PE{"p1"}
	var err3 error = &pe
	pe.msg = "p2"
	fmt.Println(err3)

	// passing directly as args
	show := func(s fmt.Stringer) func() string { return s.String }
	f1 := show(&v)
	f2 := show(v)
	v.name = "y"
	// method value from an interface holding a pointer: the receiver is the pointer,
	// dereferenced at call time.
	fmt.Println(f1(), f2())
}
