package main

import (
	"fmt"
	"sort"
)

type A struct {
	s []int
	n int
}

func (a *A) Len() int          { a.n++; return len(a.s) }
func (a A) Less(i, j int) bool { return a.s[i] < a.s[j] }
func (a A) Swap(i, j int) {
	fmt.Println("swap sees n =", a.n)
	a.s[i], a.s[j] = a.s[j], a.s[i]
}

func main() {
	v := A{s: []int{3, 1, 2}}
	p := &v
	sort.Sort(p)
	fmt.Println(v.s, v.n)
}
