package main

import "fmt"

type I interface {
	Val() int
	PInc()
}

type V interface{ Val() int }

type T struct{ n int }

func (t T) Val() int { return t.n }
func (t *T) PInc()   { t.n++ }

func call(i V) int { return i.Val() }

func main() {
	v := T{n: 1}
	p := &v
	var i I = p
	var j V = v
	v.n = 7
	fmt.Println(i.Val(), j.Val())
	i.PInc()
	fmt.Println(i.Val(), j.Val(), v.n)
	f := i.Val // method value from interface: receiver p, deref at call
	g := j.Val
	v.n = 20
	fmt.Println(f(), g(), call(p), call(v))

	var e interface{} = p
	k := e.(V)
	v.n = 30
	fmt.Println(k.Val(), e.(I).Val())

	is := []V{p, v, &v}
	v.n = 40
	for _, x := range is {
		fmt.Print(x.Val(), " ")
	}
	fmt.Println()

	q := &T{n: 1}
	var i2 I = q
	other := &T{n: 99}
	q = other
	fmt.Println(i2.Val()) // 1: the interface holds the old pointer
}
