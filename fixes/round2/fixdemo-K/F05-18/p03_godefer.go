package main

import (
	"fmt"
	"sync"
)

type Acc struct {
	id   int
	out  *[4]int
	pout *[4]int
}

func (a Acc) run(wg *sync.WaitGroup)   { a.out[a.id] = a.id * 10; wg.Done() }
func (a *Acc) prun(wg *sync.WaitGroup) { a.pout[a.id] = a.id + 1; wg.Done() }
func (a Acc) show()                    { fmt.Println("show", a.id) }
func (a *Acc) pshow()                  { fmt.Println("pshow", a.id) }

func main() {
	var out, pout [4]int
	accs := make([]Acc, 4)
	for i := range accs {
		accs[i] = Acc{i, &out, &pout}
	}
	var wg sync.WaitGroup
	for w := range accs {
		wg.Add(2)
		go accs[w].run(&wg)
		go accs[w].prun(&wg)
	}
	wg.Wait()
	fmt.Println(out, pout)

	func() {
		for i := range accs {
			defer accs[i].show()
			defer accs[i].pshow()
			p := &accs[i]
			defer p.show()
			defer p.pshow()
		}
		for i := range accs {
			accs[i].id += 100
		}
	}()

	func() {
		a := Acc{id: 1}
		p := &a
		defer a.show()  // 1
		defer p.show()  // 1
		defer a.pshow() // 3
		defer p.pshow() // 3
		a.id = 2
		b := Acc{id: 9}
		p = &b
		defer p.show() // 9
		a.id = 3
		b.id = 10
	}()
}
