package main

import (
	"fmt"
	"io"
)

type VW struct {
	prefix string
	buf    *[]byte
}

func (w VW) Write(b []byte) (int, error) {
	*w.buf = append(*w.buf, w.prefix...)
	*w.buf = append(*w.buf, b...)
	return len(b), nil
}

type PW struct {
	prefix string
	buf    []byte
}

func (w *PW) Write(b []byte) (int, error) {
	w.buf = append(w.buf, w.prefix...)
	w.buf = append(w.buf, b...)
	return len(b), nil
}

func main() {
	var buf []byte
	v := VW{"<1>", &buf}
	var w1 io.Writer = &v
	var w2 io.Writer = v
	fmt.Fprint(w1, "a")
	fmt.Fprint(w2, "b")
	v.prefix = "<2>"
	fmt.Fprint(w1, "c")
	fmt.Fprint(w2, "d")
	io.WriteString(w1, "e")
	var w4, w5 io.Writer = &v, v
	mw := io.MultiWriter(w4, w5)
	v.prefix = "<3>"
	fmt.Fprint(mw, "f")
	fmt.Println(string(buf))

	pw := PW{prefix: "[1]"}
	var w3 io.Writer = &pw
	fmt.Fprint(w3, "a")
	pw.prefix = "[2]"
	fmt.Fprint(w3, "b")
	fmt.Println(string(pw.buf))
}
