package main

import (
	"fmt"
	"sort"
	"strings"
	"sync"
)

type Cnt int

func (c Cnt) String() string { return fmt.Sprintf("Cnt(%d)", int(c)) }

type IntS []int

func (s IntS) Len() int           { return len(s) }
func (s IntS) Less(i, j int) bool { return s[i] < s[j] }
func (s IntS) Swap(i, j int)      { s[i], s[j] = s[j], s[i] }

type M struct{ n int }

// Mut changes its own copy of the receiver only.
func (m M) String() string { m.n++; return fmt.Sprint("M", m.n) }

type Box struct {
	S  fmt.Stringer
	Ss []fmt.Stringer
	Ms map[string]fmt.Stringer
}

func describe(s fmt.Stringer) string { return "<" + s.String() + ">" }

func mk(m *M) fmt.Stringer { return m }

func mkv(m M) fmt.Stringer { return m }

func main() {
	c := Cnt(1)
	var s1 fmt.Stringer = &c
	var s2 fmt.Stringer = c
	c = 5
	fmt.Println(s1, s2, describe(&c), describe(c))

	is := IntS{3, 1, 2}
	pis := &is
	var si sort.Interface = pis
	is = IntS{9, 8, 7, 6}
	sort.Sort(si)
	fmt.Println(is, *pis)

	m := M{1}
	var vm fmt.Stringer = m
	var pm fmt.Stringer = &m
	fmt.Println(vm, vm, pm, pm, m.n)
	m.n = 10
	fmt.Println(vm, vm, pm, pm, m.n)

	b := Box{S: &m, Ss: []fmt.Stringer{&m, m}, Ms: map[string]fmt.Stringer{"p": &m, "v": m}}
	r1, r2 := mk(&m), mkv(m)
	m.n = 20
	fmt.Println(b.S, b.Ss[0], b.Ss[1], b.Ms["p"], b.Ms["v"], r1, r2)
	b.Ss = append(b.Ss, &m, m)
	m.n = 30
	fmt.Println(b.Ss)

	// the wrapper is called from other goroutines
	var wg sync.WaitGroup
	var mu sync.Mutex
	var out []string
	for i := 0; i < 4; i++ {
		wg.Add(1)
		go func(s fmt.Stringer) {
			defer wg.Done()
			mu.Lock()
			out = append(out, fmt.Sprint(s))
			mu.Unlock()
		}(pm)
	}
	wg.Wait()
	fmt.Println(strings.Join(out, " "))

	// pointer variable reassigned after the conversion: the interface keeps the old pointer
	q := &M{100}
	var sq fmt.Stringer = q
	q = &M{200}
	fmt.Println(sq, q)

	// loop variable
	ms := []M{{1}, {2}, {3}}
	var all []fmt.Stringer
	for i := range ms {
		all = append(all, &ms[i])
	}
	for _, x := range ms {
		all = append(all, x)
	}
	for i := range ms {
		ms[i].n *= 7
	}
	fmt.Println(all)
}
