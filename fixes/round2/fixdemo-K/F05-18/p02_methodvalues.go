package main

import "fmt"

type T struct {
	name string
	n    int
}

func (t T) Get() string   { return fmt.Sprint(t.name, ":", t.n) }
func (t *T) PGet() string { return fmt.Sprint(t.name, ":", t.n) }
func (t *T) Inc()         { t.n++ }

func main() {
	v := T{name: "a", n: 1}
	p := &v

	g1 := v.Get  // copies v
	g2 := p.Get  // copies *p
	g3 := v.PGet // &v
	g4 := p.PGet // p
	inc := v.Inc

	v.name, v.n = "b", 2
	fmt.Println(g1(), g2(), g3(), g4())
	inc()
	inc()
	fmt.Println(g1(), g2(), g3(), g4(), v.n)

	w := T{name: "w", n: 10}
	p = &w
	fmt.Println(g2(), g4())
	g5 := p.Get
	g6 := p.PGet
	w.n = 11
	fmt.Println(g5(), g6())

	// method values passed to a host function
	fs := []func() string{v.Get, p.Get, v.PGet, p.PGet}
	v.n, w.n = 100, 200
	for _, f := range fs {
		fmt.Println(f())
	}
}
