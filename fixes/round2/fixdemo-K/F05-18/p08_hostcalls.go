package main

import (
	"fmt"
	"sort"
	"strings"
	"sync"
)

type C struct{ n int }

func (c C) Show() string  { return fmt.Sprint("C", c.n) }
func (c *C) Bump()        { c.n++ }
func (c C) Less(o C) bool { return c.n < o.n }

type ByN []C

func (b ByN) Len() int           { return len(b) }
func (b ByN) Less(i, j int) bool { return b[i].Less(b[j]) }
func (b ByN) Swap(i, j int)      { b[i], b[j] = b[j], b[i] }

func main() {
	c := C{1}
	var once sync.Once
	once.Do(c.Bump)
	once.Do(c.Bump)
	fmt.Println(c.n)

	show := c.Show
	c.Bump()
	fmt.Println(show(), c.Show())

	cs := ByN{{3}, {1}, {2}}
	sort.Sort(cs)
	fmt.Println(cs)
	pcs := &cs
	sort.Sort(sort.Reverse(pcs))
	fmt.Println(cs)

	var fs []func() string
	for i := range cs {
		fs = append(fs, cs[i].Show)
	}
	for i := range cs {
		cs[i].n *= 10
	}
	var sb strings.Builder
	for _, f := range fs {
		sb.WriteString(f())
		sb.WriteString(" ")
	}
	fmt.Println(sb.String(), cs)

	m := strings.Map
	_ = m
	sort.Slice(cs, func(i, j int) bool { return cs[i].Less(cs[j]) })
	fmt.Println(cs)
}
