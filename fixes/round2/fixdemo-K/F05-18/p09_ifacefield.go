package main

import (
	"fmt"
	"sort"
)

type Named interface {
	Name() string
	String() string
}

type P struct{ name string }

func (p P) Name() string   { return p.name }
func (p P) String() string { return "P " + p.name }

// Holder has a field of a script interface type.
type Holder struct {
	N Named
	x int
}

type L struct {
	s []string
	n int
}

func (l *L) Len() int          { l.n++; return len(l.s) }
func (l L) Less(i, j int) bool { return l.s[i] < l.s[j] }
func (l L) Swap(i, j int)      { fmt.Println("n", l.n); l.s[i], l.s[j] = l.s[j], l.s[i] }

func sorted(x sort.Interface) sort.Interface { sort.Sort(x); return x }

func main() {
	p := P{"one"}
	h := Holder{&p, 1}
	hv := Holder{p, 2}
	p.name = "two"
	fmt.Println(h.N.Name(), hv.N.Name())

	// script interface value holding a pointer, converted to a host interface
	var s1 fmt.Stringer = h.N.(fmt.Stringer)
	p.name = "three"
	fmt.Println(s1, s1.String(), h.N.String(), hv.N.String())

	l := L{s: []string{"c", "a", "b"}}
	x := sorted(&l)
	fmt.Println(l.s, l.n)
	l.s = []string{"z", "y"}
	sort.Sort(x)
	fmt.Println(l.s, l.n)
	sort.Sort(sort.Reverse(&l))
	fmt.Println(l.s, l.n)
	sort.Stable(x)
	fmt.Println(l.s, l.n, sort.IsSorted(x))
}
