package main

import "fmt"

type IG interface{ Get() int }
type II interface{ Inc() }
type IGI interface {
	IG
	II
}

type W struct{ nw int }

func (w W) Get() int { return w.nw }
func (w *W) Inc()    { w.nw++ }

type H struct {
	name string
	g    IG
}

func none() IG { return nil }

func try(f func()) {
	defer func() {
		r := recover()
		fmt.Println("panicked:", r != nil)
	}()
	f()
}

func main() {
	var i IG

	// status only form
	_, ok := i.(II)
	fmt.Println("status", ok)

	// same interface type
	k, ok := i.(IG)
	fmt.Println(k, ok)

	// one result form panics
	try(func() { j := i.(II); fmt.Println("not reached", j) })

	// nil from a function
	j2, ok2 := none().(IGI)
	fmt.Println(j2, ok2)

	// nil in a struct field
	h := H{name: "h"}
	j3, ok3 := h.g.(II)
	fmt.Println(j3, ok3)

	// reset to nil after holding a value
	i = &W{4}
	j4, ok4 := i.(II)
	fmt.Println(j4 != nil, ok4)
	i = nil
	j5, ok5 := i.(II)
	fmt.Println(j5, ok5)

	// anonymous interface target
	j6, ok6 := i.(interface{ Get() int })
	fmt.Println(j6, ok6)

	// type switch on a nil interface
	switch x := i.(type) {
	case II:
		fmt.Println("II", x)
	case IG:
		fmt.Println("IG", x)
	default:
		fmt.Println("default")
	}

	// assertion to a concrete type
	w, ok7 := i.(W)
	fmt.Println(w, ok7)

	// to a host interface
	s, ok8 := i.(fmt.Stringer)
	fmt.Println(s, ok8)
}
