package main

import "fmt"

type IG interface{ Get() int }
type II interface{ Inc() }

func main() {
	var i IG
	j, ok := i.(II)
	fmt.Println(j, ok)
}
