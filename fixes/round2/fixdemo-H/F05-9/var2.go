package main

import (
	"errors"
	"fmt"
)

type Reader interface{ Read() string }
type Closer interface{ Close() error }
type ReadCloser interface {
	Reader
	Closer
}

type file struct{ name string }

func (f *file) Read() string { return f.name }
func (f *file) Close() error { return errors.New("closed " + f.name) }

func probe(r Reader) string {
	if c, ok := r.(Closer); ok {
		return "closer: " + c.Close().Error()
	}
	return "no closer"
}

func try(f func()) {
	defer func() { fmt.Println("panicked:", recover() != nil) }()
	f()
}

func main() {
	// parameter
	fmt.Println(probe(nil))
	fmt.Println(probe(&file{"a"}))

	// slice and map elements
	rs := []Reader{nil, &file{"b"}, nil}
	for _, r := range rs {
		_, ok := r.(ReadCloser)
		fmt.Println(ok)
	}
	m := map[string]Reader{"x": nil}
	c, ok := m["x"].(Closer)
	fmt.Println(c, ok)
	c, ok = m["missing"].(Closer)
	fmt.Println(c, ok)

	// error values
	var err error
	_, ok = err.(interface{ Unwrap() error })
	fmt.Println(ok)
	_, ok = err.(fmt.Stringer)
	fmt.Println(ok)

	// one result forms panic
	var r Reader
	try(func() { _ = r.(Closer) })
	try(func() { _ = r.(fmt.Stringer) })
	try(func() { _ = r.(*file) })

	// in a condition
	if _, ok := r.(Closer); !ok {
		fmt.Println("cond false")
	}
}
