package main

import "fmt"

type C struct{ nc int }

func (c C) M() { fmt.Println("C.M", c.nc) }

type A struct {
	na int
	C
}

type B struct{ nb int }

func (b B) M() { fmt.Println("B.M", b.nb) }

type S struct {
	ns int
	A
	B
}

type I interface{ M() }

func main() {
	var v S
	v.ns, v.na, v.nc, v.nb = 1, 2, 3, 4
	v.M()
	var i I = v
	i.M()
	var s fmt.Stringer
	_ = s
	fmt.Println(v)
}
