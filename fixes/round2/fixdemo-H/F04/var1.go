package main

import (
	"bytes"
	"fmt"
	"strings"
)

type C struct{ nc int }

func (c C) M() string     { return fmt.Sprint("C.M ", c.nc) }
func (c *C) PM() string   { return fmt.Sprint("C.PM ", c.nc) }
func (c C) OnlyC() string { return "C.OnlyC" }

type A struct {
	na int
	C
}

type B struct{ nb int }

func (b B) M() string   { return fmt.Sprint("B.M ", b.nb) }
func (b *B) PM() string { return fmt.Sprint("B.PM ", b.nb) }

// shallower method declared after the deeper one
type S struct {
	ns int
	A
	B
}

// shallower method declared before the deeper one
type S2 struct {
	B
	A
}

// pointer embedding
type S3 struct {
	*A
	*B
}

// three levels against two
type D struct{ A }
type S4 struct {
	D
	X struct{ B }
	E
}
type E struct{ B }

// the same type at two depths
type S5 struct {
	A
	C
}

// own method wins
type S6 struct {
	A
	B
}

func (s S6) M() string { return "S6.M" }

type I interface{ M() string }
type IP interface{ PM() string }

// host types embedded at different depths
type HB struct{ *bytes.Buffer }
type HS struct {
	HB
	*strings.Builder
}

func main() {
	s := S{1, A{2, C{3}}, B{4}}
	fmt.Println(s.M(), s.PM(), s.OnlyC(), s.A.M(), s.A.C.M())
	ps := &s
	fmt.Println(ps.M(), ps.PM())

	s2 := S2{B{5}, A{6, C{7}}}
	fmt.Println(s2.M(), s2.PM())

	s3 := S3{&A{8, C{9}}, &B{10}}
	fmt.Println(s3.M(), s3.PM())

	s4 := S4{D: D{A{11, C{12}}}, E: E{B{13}}}
	fmt.Println(s4.M(), s4.PM())

	s5 := S5{A{14, C{15}}, C{16}}
	fmt.Println(s5.M(), s5.PM(), s5.OnlyC())

	s6 := S6{A{17, C{18}}, B{19}}
	fmt.Println(s6.M(), s6.PM())

	// through interpreted interfaces
	var i I = s
	fmt.Println(i.M())
	i = &s2
	fmt.Println(i.M())
	var ip IP = &s
	fmt.Println(ip.PM())
	i = s5
	fmt.Println(i.M())

	// method values
	f := s.M
	h := ps.PM
	fmt.Println(f(), h())

	// through host interfaces
	var st fmt.Stringer = T{U{V{"deep"}}, W{"shallow"}}
	fmt.Println(st)
	fmt.Println(st.String())

	// embedded host types
	hs := HS{HB{bytes.NewBufferString("buffer")}, &strings.Builder{}}
	hs.WriteString("builder")
	fmt.Println(hs.String(), hs.Len(), hs.HB.String())
}

type V struct{ s string }

func (v V) String() string { return "V:" + v.s }

type U struct{ V }
type W struct{ s string }

func (w W) String() string { return "W:" + w.s }

type T struct {
	U
	W
}
