package main

import "fmt"

type A struct {
	na int
	M  func()
}

type B struct{ nb int }

func (b B) M() { fmt.Println("B.M") }

type S struct {
	ns int
	A
	B
}

func main() {
	var v S
	v.M()
	fmt.Println(v.ns)
}
