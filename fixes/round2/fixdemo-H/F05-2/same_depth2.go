package main

import (
	"fmt"
	"image"
)

type B struct{ nb int }

func (b *B) X() string { return "B.X" }

// host struct field and interpreted method at the same depth
type S struct {
	image.Point
	B
}

func main() {
	s := S{image.Point{X: 1}, B{2}}
	fmt.Println(s.X)
}
