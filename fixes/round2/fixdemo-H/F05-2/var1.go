package main

import (
	"fmt"
	"image"
)

type B struct{ nb int }

func (b B) M() string    { return "B.M" }
func (b B) Name() string { return "B.Name" }
func (b *B) X() string   { return "B.X" }

type C struct {
	nc int
	B
}

// own field, method promoted from one level down
type S0 struct {
	M func() string
	B
}

// field at depth 1, method at depth 2
type A struct {
	Name string
	M    func() string
}
type S1 struct {
	A
	C
}

// method at depth 1, field at depth 2
type AA struct{ A }
type S2 struct {
	AA
	B
}

// method at depth 0, field at depth 1
type S3 struct{ A }

func (s S3) M() string { return "S3.M" }

// host struct field at depth 1, pointer receiver method at depth 2
type S4 struct {
	image.Point
	C
}

// host struct field at depth 2, method at depth 1
type HP struct{ image.Point }
type S5 struct {
	HP
	*B
}

func main() {
	s0 := S0{func() string { return "field S0.M" }, B{1}}
	fmt.Println(s0.M(), s0.B.M())

	s1 := S1{A{"field A.Name", func() string { return "field A.M" }}, C{2, B{3}}}
	fmt.Println(s1.Name, s1.M(), s1.C.Name(), s1.C.M())
	p1 := &s1
	p1.Name = "set"
	fmt.Println(p1.Name, s1.A.Name, p1.M())

	s2 := S2{AA{A{"deep field", func() string { return "deep field M" }}}, B{4}}
	fmt.Println(s2.Name(), s2.M(), s2.AA.Name, s2.AA.M())

	s3 := S3{A{"n", func() string { return "field A.M" }}}
	fmt.Println(s3.M(), s3.A.M(), s3.Name)

	s4 := S4{image.Point{X: 5, Y: 6}, C{7, B{8}}}
	fmt.Println(s4.X, s4.Y, s4.C.X())
	s4.X = 50
	fmt.Println(s4.Point)

	s5 := S5{HP{image.Point{X: 9, Y: 10}}, &B{11}}
	fmt.Println(s5.X(), s5.Y, s5.HP.X)
}
