package main

import "fmt"

type A struct {
	na int
	M  func()
}

type B struct{ nb int }

func (b B) M() { fmt.Println("B.M") }

type C struct {
	nc int
	B
}

type U struct {
	nu int
	A
	C
}

func main() {
	var v U
	v.A.M = func() { fmt.Println("field M") }
	v.M()
	fmt.Println(v.nu)
}
