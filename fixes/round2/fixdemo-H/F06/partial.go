package main

import "fmt"

type W struct{ nw int }

func (w W) Get() int { return w.nw }
func (w *W) Inc()    { w.nw++ }

type N int

func (n N) Get() int { return int(n) }

type IG interface{ Get() int }
type II interface{ Inc() }

func get(x interface{}) int {
	if g, ok := x.(IG); ok {
		return g.Get()
	}
	return -1
}

func main() {
	// values whose type declares methods, held in an interface{}
	w := W{1}
	var x interface{} = w
	g, ok := x.(interface{ Get() int })
	fmt.Println(ok, g.Get())

	// named interface, one result form
	fmt.Println(x.(IG).Get())

	// named int
	x = N(2)
	g2, ok2 := x.(IG)
	fmt.Println(ok2, g2.Get())

	// pointer to a type with pointer methods
	x = &w
	i, ok3 := x.(II)
	fmt.Println(ok3)
	i.Inc()
	fmt.Println(w.nw, x.(IG).Get())

	// function parameter, slice and map elements
	fmt.Println(get(w), get(N(3)), get(4), get(nil))
	xs := []interface{}{w, N(5), "s"}
	for _, e := range xs {
		_, ok := e.(IG)
		fmt.Print(ok, " ")
	}
	fmt.Println()
	m := map[string]interface{}{"w": w}
	fmt.Println(m["w"].(IG).Get())

	// missing method
	_, ok4 := x.(interface{ Put() })
	fmt.Println(ok4)

	// type switch
	switch t := x.(type) {
	case II:
		t.Inc()
		fmt.Println("II", w.nw)
	default:
		fmt.Println("default")
	}
}
