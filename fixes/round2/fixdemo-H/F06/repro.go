package main

import "fmt"

type W struct{ nw int }

func (w W) Get() int { return w.nw }
func (w *W) Inc()    { w.nw++ }

type V struct {
	nv int
	W
}

func main() {
	var v V
	v.nw = 7
	var x interface{} = &v
	g, ok := x.(interface{ Get() int })
	fmt.Println(ok)
	if ok {
		fmt.Println(g.Get())
	}
}
