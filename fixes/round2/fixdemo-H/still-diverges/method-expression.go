package main

import "fmt"

type W struct{ nw int }

func (w W) Get() int { return w.nw }

type V struct{ W }

func main() {
	w := W{1}
	fmt.Println((*W).Get(&w))
	fmt.Println(V.Get(V{W{2}}))
}
