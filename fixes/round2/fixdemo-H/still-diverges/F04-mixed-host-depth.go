package main

import (
	"fmt"
	"strings"
)

type C struct{ s string }

func (c C) String() string { return "C:" + c.s }

type A struct{ C }

// interpreted method deeper than the host method
type S struct {
	A
	*strings.Builder
}

// host method deeper than the interpreted method
type HB struct{ *strings.Builder }
type S2 struct {
	HB
	C
}

func main() {
	s := S{A{C{"deep"}}, &strings.Builder{}}
	s.WriteString("builder")
	fmt.Println(s.String())
	var st fmt.Stringer = s
	fmt.Println(st.String())

	s2 := S2{HB{&strings.Builder{}}, C{"shallow"}}
	s2.WriteString("deep builder")
	fmt.Println(s2.String())
	st = s2
	fmt.Println(st.String())
}
