package main

import "fmt"

type W struct{ nw int }

func (w W) Get() int { return w.nw }
func (w *W) Inc()    { w.nw++ }

type V struct {
	nv int
	W
}

func main() {
	w := W{1}
	var x interface{} = w
	g, ok := x.(interface{ Get() int })
	fmt.Println(ok)
	if ok {
		fmt.Println(g.Get())
	}
	x = &w
	g, ok = x.(interface{ Get() int })
	fmt.Println(ok)
	if ok {
		fmt.Println(g.Get())
	}
	x = V{2, W{3}}
	g, ok = x.(interface{ Get() int })
	fmt.Println(ok)
	if ok {
		fmt.Println(g.Get())
	}
}
