package main

import "fmt"

type IG interface{ Get() int }

func main() {
	var g IG
	switch g.(type) {
	case nil:
		fmt.Println("nil")
	default:
		fmt.Println("default")
	}
}
