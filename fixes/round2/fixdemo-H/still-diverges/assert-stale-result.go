package main

import "fmt"

type IG interface{ Get() int }
type II interface{ Inc() }
type W struct{ nw int }

func (w W) Get() int { return w.nw }
func (w *W) Inc()    { w.nw++ }

func main() {
	var j II
	for _, g := range []IG{&W{1}, W{2}, nil} {
		j, ok := g.(II) // a failed assertion must yield the zero value
		fmt.Println(j != nil, ok)
	}
	var g IG = &W{3}
	j, ok := g.(II)
	fmt.Println(j != nil, ok)
	g = nil
	j, ok = g.(II)
	fmt.Println(j != nil, ok)
}
