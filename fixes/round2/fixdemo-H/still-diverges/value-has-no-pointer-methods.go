package main

import "fmt"

type IG interface{ Get() int }
type II interface{ Inc() }
type W struct{ nw int }

func (w W) Get() int { return w.nw }
func (w *W) Inc()    { w.nw++ }

func main() {
	var g IG = W{1}
	_, ok := g.(II) // Inc is not in the method set of W
	fmt.Println(ok)
}
