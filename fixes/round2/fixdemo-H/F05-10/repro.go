package main

import "fmt"

type W struct{ nw int }

func (w W) Get() int { return w.nw }
func (w *W) Inc()    { w.nw++ }

type IG interface{ Get() int }

func main() {
	defer func() { fmt.Println("recovered:", recover() != nil) }()
	var v W
	var i IG = v
	j := i.(interface{ Put() })
	fmt.Println("not reached", j)
}
