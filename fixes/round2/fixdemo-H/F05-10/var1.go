package main

import (
	"fmt"
	"strings"
)

type W struct{ nw int }

func (w W) Get() int { return w.nw }
func (w *W) Inc()    { w.nw++ }

type V struct {
	nv int
	W
}

type N int

func (n N) Get() int { return int(n) }

type IG interface{ Get() int }
type IP interface{ Put(int) }
type IGP interface {
	IG
	IP
}
type IS interface{ Get() string }

func try(name string, f func()) {
	defer func() {
		r := recover()
		msg := fmt.Sprint(r)
		fmt.Println(name, "panicked:", r != nil, strings.Contains(msg, "interface conversion"))
	}()
	f()
	fmt.Println(name, "done")
}

type holder struct{ g IG }

func asPut(g IG) IP { return g.(IP) }

func main() {
	var i IG = W{1}

	// named interface, method missing
	try("named", func() { j := i.(IP); fmt.Println("not reached", j) })
	// anonymous interface, method missing
	try("anon", func() { j := i.(interface{ Put(int) }); fmt.Println("not reached", j) })
	// one method present, one missing
	try("partial", func() { j := i.(IGP); fmt.Println("not reached", j) })
	// host interface, method missing
	try("host", func() { j := i.(fmt.Stringer); fmt.Println("not reached", j) })
	// same name, other signature
	try("signature", func() { j := i.(IS); fmt.Println("not reached", j) })
	// promoted method present: succeeds
	i = V{2, W{3}}
	try("promoted", func() { j := i.(interface{ Get() int }); fmt.Println(j.Get()) })
	// non struct dynamic type
	i = N(4)
	try("int", func() { j := i.(IP); fmt.Println("not reached", j) })
	// in a return statement
	try("return", func() { fmt.Println("not reached", asPut(i)) })
	// in a struct field, blank assigned
	h := holder{g: &W{5}}
	try("field", func() { _ = h.g.(IP) })
	// as expression statement operand
	try("expr", func() { fmt.Println("not reached", h.g.(IGP)) })
	// two result form still does not panic
	j, ok := i.(IP)
	fmt.Println(j, ok)
	// success still works
	try("ok", func() { fmt.Println(h.g.(interface{ Inc() }) != nil) })
}
