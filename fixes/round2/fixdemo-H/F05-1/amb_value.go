package main

import "fmt"

type A struct{ na int }

func (a A) M() string { return "A.M" }

type B struct{ nb int }

func (b B) M() string { return "B.M" }

type S struct {
	A
	B
}

func main() {
	var s S
	f := s.M // method value
	fmt.Println(f())
}
