package main

import "fmt"

type C struct{ nc int }

func (c C) M() string { return "C.M" }

type A struct{ C }
type B struct{ C }

// the same method through two paths of the same depth
type S struct {
	A
	B
}

func main() {
	var s S
	fmt.Println(s.M())
}
