package main

import "fmt"

type A struct{ na int }

func (a *A) M() string { return "A.M" }

type B struct{ nb int }

func (b *B) M() string { return "B.M" }

type S struct {
	*A
	*B
}

func main() {
	s := &S{&A{1}, &B{2}}
	fmt.Println(s.M())
}
