package main

import "fmt"

type A struct{ na int }

func (a A) M() string { return "A.M" }

type B struct{ nb int }

func (b B) M() string { return "B.M" }

type X struct{ A }
type Y struct{ B }

// two methods at depth 2, none above
type S struct {
	n int
	X
	Y
}

func main() {
	var s S
	fmt.Println(s.M())
}
