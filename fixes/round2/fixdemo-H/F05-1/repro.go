package main

import "fmt"

type A struct{ na int }

func (a A) M() { fmt.Println("A.M") }

type B struct{ nb int }

func (b *B) M() { fmt.Println("B.M") }

type S struct {
	ns int
	A
	B
}

func main() {
	var v S
	v.M()
	fmt.Println(v)
}
