package main

import "fmt"

type A struct{ na int }

func (a A) M() string { return "A.M" }
func (a A) N() string { return "A.N" }

type B struct{ nb int }

func (b B) M() string  { return "B.M" }
func (b *B) N() string { return "B.N" }

type X struct{ A }
type Y struct{ B }

// a tie at depth 2 below a single method at depth 1
type D struct{ nd int }

func (d D) M() string { return "D.M" }

type S1 struct {
	X
	Y
	D
}

// own method above a tie
type S2 struct {
	A
	B
}

func (s S2) M() string { return "S2.M" }

// an ambiguous selector that is never used, qualified calls
type S3 struct {
	A
	B
}

// the same type at two depths is not ambiguous
type S4 struct {
	X
	A
}

type I interface{ M() string }

func main() {
	s1 := S1{X{A{1}}, Y{B{2}}, D{3}}
	fmt.Println(s1.M(), s1.X.M(), s1.Y.M())
	var i I = s1
	fmt.Println(i.M())

	s2 := S2{A{4}, B{5}}
	fmt.Println(s2.M(), s2.A.M(), s2.B.M())
	f := s2.M
	fmt.Println(f())

	s3 := S3{A{6}, B{7}}
	fmt.Println(s3.A.M(), s3.B.M(), s3.A.N(), s3.B.N())

	s4 := &S4{X{A{8}}, A{9}}
	fmt.Println(s4.M(), s4.N(), s4.X.M())
}
