package main

import "fmt"

type A struct{ na int }

func (a A) M() string { return "A.M" }

type B struct{ nb int }

func (b B) M() string { return "B.M" }

type C struct{ nc int }

func (c C) M() string { return "C.M" }

type Z struct{ C }

// two at depth 1 and one at depth 2
type S struct {
	Z
	A
	B
}

func use(s *S) string { return s.M() }

func main() {
	fmt.Println(use(&S{}))
}
