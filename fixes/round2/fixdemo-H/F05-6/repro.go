package main

import "fmt"

type W struct{ nw int }

func (w W) Get() int { return w.nw }
func (w *W) Inc()    { w.nw++ }

type IG interface{ Get() int }

func main() {
	var v W
	v.nw = 1
	var i IG = v
	v.nw++
	fmt.Println(i.Get())
	fmt.Println(v)
}
