package main

import "fmt"

type W struct{ nw int }

func (w W) Get() int { return w.nw }
func (w *W) Inc()    { w.nw++ }

type V struct {
	nv int
	W
}

type N int

func (n N) Get() int { return int(n) }

type Arr [2]int

func (a Arr) Get() int { return a[0] + a[1] }

type IG interface{ Get() int }
type II interface{ Inc() }

type holder struct{ g IG }

func ret(w W) IG { return w }

func pass(g IG, f func()) int { f(); return g.Get() }

func main() {
	// embedded struct
	v := V{1, W{2}}
	var i IG = v
	v.nw = 10
	fmt.Println(i.Get(), v.Get())

	// named int
	n := N(3)
	i = n
	n++
	fmt.Println(i.Get(), n)

	// array
	a := Arr{1, 2}
	i = a
	a[0] = 40
	fmt.Println(i.Get(), a)

	// struct field of interface type
	w := W{5}
	h := holder{g: w}
	w.nw = 50
	fmt.Println(h.g.Get(), w)

	// function result
	w2 := W{6}
	r := ret(w2)
	w2.nw = 60
	fmt.Println(r.Get())

	// function argument, variable changed while the callee runs
	w3 := W{7}
	fmt.Println(pass(w3, func() { w3.nw = 70 }))

	// slice and map of interfaces
	w4 := W{8}
	s := []IG{w4}
	m := map[string]IG{"a": w4}
	w4.nw = 80
	fmt.Println(s[0].Get(), m["a"].Get())

	// pointers keep sharing
	w5 := W{9}
	var p II = &w5
	p.Inc()
	w5.nw += 10
	fmt.Println(w5.nw, p.(*W).nw)

	// interface to interface, then change
	w6 := W{11}
	var g IG = w6
	var g2 IG = g
	w6.nw = 110
	fmt.Println(g.Get(), g2.Get())

	// the value read back from the interface is a copy too
	back := g.(W)
	back.nw = 12
	fmt.Println(g.Get(), back.nw)

	// loop variable
	var gs []IG
	for _, x := range []W{{1}, {2}, {3}} {
		gs = append(gs, x)
	}
	for _, g := range gs {
		fmt.Print(g.Get(), " ")
	}
	fmt.Println()
}
