package main

import "fmt"

type A struct {
	na int
	M  func()
}

type B struct{ nb int }

func (b B) M() { fmt.Println("B.M") }

type C struct {
	nc int
	B
}

type P struct {
	np int
	xa A
	C
}

func main() {
	var v P
	v.M()
	fmt.Println(v.np)
}
