package main

import "fmt"

type A struct {
	na int
	M  func() string
	x  string
}

type B struct {
	nb int
	x  string
}

func (b B) M() string { return "B.M" }

type C struct {
	nc int
	B
}

// plain field of a type with a field M, promoted method M one level down
type P struct {
	np int
	xa A
	C
}

// plain field first, the promoted field of the same name is found behind it
type Q struct {
	inner A
	B
}

// fields at different depths: the shallowest wins whatever the order
type D struct{ C }
type R struct {
	D
	B2
}
type B2 struct {
	x  string
	nb int
}

// pointer fields, plain and embedded
type T struct {
	pa *A
	*B
}

// the same type at two depths
type U struct {
	C
	B
}

func main() {
	p := P{np: 1, xa: A{na: 2, x: "xa.x"}, C: C{3, B{4, "B.x"}}}
	fmt.Println(p.M(), p.x, p.nb, p.xa.x, p.xa.na)

	q := Q{A{na: 5, x: "inner.x"}, B{6, "B.x"}}
	fmt.Println(q.x, q.M(), q.inner.x)
	q.x = "set"
	fmt.Println(q.B.x, q.inner.x)

	r := R{D{C{7, B{8, "deep"}}}, B2{"shallow", 9}}
	fmt.Println(r.x, r.nb, r.nc, r.D.x, r.M())
	r.x, r.nb = "w", 10
	fmt.Println(r.B2, r.D.C.B)

	t := &T{&A{na: 11, x: "pa.x"}, &B{12, "B.x"}}
	fmt.Println(t.x, t.nb, t.pa.x, t.M())
	t.x = "set"
	fmt.Println(t.B.x, t.pa.x)

	u := U{C{13, B{14, "deep"}}, B{15, "shallow"}}
	fmt.Println(u.x, u.nb, u.nc, u.M())
	pu := &u
	pu.nb++
	fmt.Println(u.B.nb, u.C.nb, pu.x)
}
