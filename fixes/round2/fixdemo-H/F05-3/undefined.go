package main

import "fmt"

type A struct{ na int }

type P struct {
	np int
	xa A
}

func main() {
	p := P{1, A{2}}
	fmt.Println(p.na) // not promoted: xa is not embedded
}
