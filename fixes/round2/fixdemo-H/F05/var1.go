package main

import (
	"fmt"
	"sort"
	"strings"
)

type W struct{ nw int }

func (w W) Get() int      { return w.nw }
func (w *W) Inc()         { w.nw++ }
func (w W) Add(k int) int { return w.nw + k }

type V struct {
	nv int
	W
}

type N int

func (n N) Get() int { return int(n) }

type Arr [2]int

func (a Arr) Sum() int { return a[0] + a[1] }

type L []int

func (l L) First() int { return l[0] }

type IG interface{ Get() int }

func apply(f func() int, g func()) int { g(); return f() }

func try(name string, f func()) {
	defer func() { fmt.Println(name, "panicked:", recover() != nil) }()
	f()
}

type byLen []string

func (b byLen) Len() int           { return len(b) }
func (b byLen) Less(i, j int) bool { return len(b[i]) < len(b[j]) }
func (b byLen) Swap(i, j int)      { b[i], b[j] = b[j], b[i] }

func main() {
	// promoted method through an embedded struct
	v := V{1, W{2}}
	g := v.Get
	v.nw = 20
	fmt.Println(g(), v.Get())

	// with arguments
	w := W{3}
	add := w.Add
	w.nw = 30
	fmt.Println(add(1), w.Add(1))

	// pointer operand, value receiver: *p is copied at evaluation
	p := &W{4}
	pg := p.Get
	p.nw = 40
	fmt.Println(pg(), p.Get())

	// pointer receiver through an addressable variable: shares the variable
	x := W{5}
	inc := x.Inc
	inc()
	inc()
	x.nw += 100
	inc()
	fmt.Println(x.nw)

	// named int and array receivers
	n := N(6)
	ng := n.Get
	n = 60
	a := Arr{1, 2}
	as := a.Sum
	a[0] = 100
	fmt.Println(ng(), as())

	// slice receiver shares the backing array
	l := L{7, 8}
	lf := l.First
	l[0] = 70
	fmt.Println(lf())

	// method value passed as argument, receiver changed before the call
	y := W{9}
	fmt.Println(apply(y.Get, func() { y.nw = 90 }))

	// method values in a slice, built in a loop
	var fs []func() int
	for i := 0; i < 3; i++ {
		t := W{i}
		fs = append(fs, t.Get)
		t.nw = 100
	}
	for _, f := range fs {
		fmt.Print(f(), " ")
	}
	fmt.Println()

	// nil pointer: value receiver panics at evaluation, pointer receiver does not
	var np *W
	try("nil value recv", func() { f := np.Get; fmt.Println(f()) })
	try("nil ptr recv", func() { f := np.Inc; fmt.Println("bound"); _ = f })

	// struct field receiver
	type H struct{ w W }
	h := H{W{10}}
	hg := h.w.Get
	h.w.nw = 1000
	fmt.Println(hg())

	// deferred method call binds the receiver at the defer statement
	func() {
		d := W{11}
		defer func(f func() int) { fmt.Println("deferred", f()) }(d.Get)
		d.nw = 110
	}()

	// method value through an interface binds the dynamic value
	z := W{12}
	var i IG = z
	ig := i.Get
	i = W{120}
	fmt.Println(ig(), i.Get())

	// direct calls and host callbacks still work
	s := byLen{"ccc", "a", "bb"}
	sort.Sort(s)
	fmt.Println(strings.Join(s, ","))
	q := W{13}
	q.Inc()
	fmt.Println(q.Get(), (&q).Get(), W.Get(q))
}
