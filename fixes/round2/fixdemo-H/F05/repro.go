package main

import "fmt"

type W struct{ nw int }

func (w W) Get() int { return w.nw }
func (w *W) Inc()    { w.nw++ }

func main() {
	var v W
	v.nw = 1
	g := v.Get
	v.nw++
	fmt.Println(g())
	fmt.Println(v)
}
