package main

import (
	"fmt"
	"sync"
)

type T struct{ name string }

func (t T) String() string   { return "T(" + t.name + ")" }
func (t *T) Rename(s string) { t.name = s }

type E struct {
	T
	k int
}

type Counter struct {
	mu sync.Mutex
	n  int
}

func (c *Counter) Add() { c.mu.Lock(); c.n++; c.mu.Unlock() }

func run(fs ...func()) {
	for _, f := range fs {
		f()
	}
}

func main() {
	// host interface holding a struct: the wrapper methods see the copy
	t := T{"a"}
	var s fmt.Stringer = t
	t.name = "b"
	fmt.Println(s, t)

	// method value handed to the host
	e := E{T{"c"}, 1}
	f := e.String
	e.name = "d"
	fmt.Println(f(), e.String())

	// pointer receiver method value shared by goroutines
	var c Counter
	add := c.Add
	var wg sync.WaitGroup
	for i := 0; i < 10; i++ {
		wg.Add(1)
		go func() { defer wg.Done(); add() }()
	}
	wg.Wait()
	fmt.Println(c.n)

	// go statement evaluates the receiver at the statement
	done := make(chan string)
	u := T{"e"}
	go func(g func() string) { done <- g() }(u.String)
	u.name = "f"
	fmt.Println(<-done)

	// variadic list of method values
	r := T{"g"}
	run(func() { fmt.Println(r.String()) }, (&r).Rename2("h"), func() { fmt.Println(r) })
}

func (t *T) Rename2(s string) func() { return func() { t.Rename(s) } }

type NA struct{ s string }

func (a NA) String() string { return "NA:" + a.s }

type NS struct {
	n int
	*NA
}

func init() {
	// A nil embedded pointer: the conversion to a host interface does not
	// evaluate the promoted value receiver, only a call does.
	defer func() { fmt.Println("call panicked:", recover() != nil) }()
	var st fmt.Stringer = NS{1, nil}
	fmt.Println("converted")
	_ = st.String()
}
