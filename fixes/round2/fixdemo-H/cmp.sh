#!/bin/bash
# usage: cmp.sh yaegi-binary files... ; compares stdout (and failure status) of go run and the interpreter
export GOFLAGS=-mod=mod GOPROXY=off GOSUMDB=off GOTOOLCHAIN=local
y=$1; shift
for f in "$@"; do
  go run $f > /tmp/fixwt2-H/go.out 2>/tmp/fixwt2-H/go.err; gs=$?
  timeout 60 $y run $f > /tmp/fixwt2-H/y.out 2>/tmp/fixwt2-H/y.err; ys=$?
  [ $gs -ne 0 ] && gs=1; [ $ys -ne 0 ] && ys=1
  if diff -q /tmp/fixwt2-H/go.out /tmp/fixwt2-H/y.out >/dev/null && [ $gs = $ys ]; then
    echo "SAME  $f (status $gs) $( [ $gs = 1 ] && (grep -v '^#' /tmp/fixwt2-H/go.err | head -1; echo ' || '; head -1 /tmp/fixwt2-H/y.err) | tr '\n' ' ')"
  else
    echo "DIFF  $f (go $gs, yaegi $ys)"; diff /tmp/fixwt2-H/go.out /tmp/fixwt2-H/y.out | head -10; head -3 /tmp/fixwt2-H/go.err; head -3 /tmp/fixwt2-H/y.err
  fi
done
