package main

import "fmt"

func o() uint64 { return 1<<64 - 1 }
func o2() uint64 { return 18446744073709551615 }

func main() {
	fmt.Println(o(), o2())
}
