package main

import "fmt"

const c = 8.0

type I int

func f(u uint) int64 { return 1 << u }
func g(u uint) uint8 { return 2.0 << u }
func h(i int) int { return i }

func main() {
	var u uint = 3
	var one uint = 1
	a := []int{1, 2, 3, 4, 5, 6, 7, 8, 9}
	_, _, _ = u, one, a
	s := []uint32{1 << u, 2.0 << u}; fmt.Println(s)
}
