package main

import "fmt"

func one() int { return 7 }

func hfn() func() int { return one }

func main() {
	fmt.Println(hfn()())
}
