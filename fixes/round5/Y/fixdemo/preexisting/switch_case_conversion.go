package main

import "fmt"

type B bool

func main() {
	var b B = false
	switch {
	case bool(b):
		fmt.Println("no")
	default:
		fmt.Println("default")
	}
}
