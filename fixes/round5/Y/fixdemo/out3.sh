#!/bin/bash
# usage: out3.sh file.go : show go / orig / new outputs
export GOFLAGS=-mod=mod GOPROXY=off GOSUMDB=off GOTOOLCHAIN=local
d=$(mktemp -d); cp $1 $d/main.go; (cd $d; printf 'module demo\ngo 1.23\n' > go.mod; go run main.go > go.out 2>&1)
/tmp/fixwt5-Y/yaegi-orig run $d/main.go > $d/orig.out 2>&1
/tmp/fixwt5-Y/yaegi-new run $d/main.go > $d/new.out 2>&1
echo "== go vs new"; diff $d/go.out $d/new.out
echo "== go vs orig"; diff $d/go.out $d/orig.out
rm -rf $d
