package main

import "fmt"

var g0 = ginit()

func ginit() int {
	fmt.Println("GVAR")
	return 1
}

func init() {
	fmt.Println("INIT")
}

func main() {
	fmt.Println("MARK")
	body()
}

const c = 8.0

func body() {
	u := 1
	x := c >> u
	_ = x
}
