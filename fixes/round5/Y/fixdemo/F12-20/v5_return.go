package main

import "fmt"

var g0 = ginit()

func ginit() int {
	fmt.Println("GVAR")
	return 1
}

func init() {
	fmt.Println("INIT")
}

func main() {
	fmt.Println("MARK")
	body()
}

func f(u uint) float64 {
	return 1 << u
}

func body() {
	f(1)
}
