package main

import "fmt"

var g0 = ginit()

func ginit() int {
	fmt.Println("GVAR")
	return 1
}

func init() {
	fmt.Println("INIT")
}

func main() {
	fmt.Println("MARK")
	body()
}

const c = 8.0

func f(u uint) int64 { return 1 << u }
func g(u uint) uint8 { return 2.0 << u }
func h(i int) int { return i }

type I int

func body() {
	var u uint = 3
	x := 1 << u
	var y int = 2.0 << u
	var z int64 = c >> u
	var w = 1 << u
	var b byte = 1 << u
	var i I = 1.0 << u
	var e interface{} = 1 << u
	r := 'a' << u
	fmt.Println(x, y, z, w, b, i, e, r)
	fmt.Printf("%T %T %T %T\n", x, w, e, r)
	y = 4.0 << u
	z = 1 << u
	y <<= u
	fmt.Println(y, z, f(u), g(u), h(1<<u))
	a := []int{1, 2, 3, 4, 5, 6, 7, 8, 9}
	var one uint = 1
	fmt.Println(a[1<<one], len(make([]byte, 1<<u)))
	fmt.Println(1<<u == 8, 1<<u+1, uint16(1<<u), 1<<3, 2.0<<3, c<<2)
	var f64 float64 = 1 << 3
	var f32 float32 = 2.0 << 2
	fmt.Println(f64, f32)
	m := map[int]int{1 << u: 1}
	fmt.Println(m)
	s := []int{1 << u}
	fmt.Println(s)
}
