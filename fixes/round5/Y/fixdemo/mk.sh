#!/bin/bash
# usage: mk.sh <id> <name>  (body on stdin: top-level declarations including func body())
mkdir -p /tmp/fixwt5-Y/fixdemo/$1
{
cat <<'HDR'
package main

import "fmt"

var g0 = ginit()

func ginit() int {
	fmt.Println("GVAR")
	return 1
}

func init() {
	fmt.Println("INIT")
}

func main() {
	fmt.Println("MARK")
	body()
}

HDR
cat
} > /tmp/fixwt5-Y/fixdemo/$1/$2.go
