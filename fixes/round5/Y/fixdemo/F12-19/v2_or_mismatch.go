package main

import "fmt"

var g0 = ginit()

func ginit() int {
	fmt.Println("GVAR")
	return 1
}

func init() {
	fmt.Println("INIT")
}

func main() {
	fmt.Println("MARK")
	body()
}

type N bool
type M bool

func body() {
	var a int
	var c N
	var z M
	z = a == a || c
	_ = z
}
