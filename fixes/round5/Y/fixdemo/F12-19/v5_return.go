package main

import "fmt"

var g0 = ginit()

func ginit() int {
	fmt.Println("GVAR")
	return 1
}

func init() {
	fmt.Println("INIT")
}

func main() {
	fmt.Println("MARK")
	body()
}

type N bool
type M bool

func f(a int, c N) M {
	return a < a && c
}

func body() {
	f(1, true)
}
