package main

import "fmt"

var g0 = ginit()

func ginit() int {
	fmt.Println("GVAR")
	return 1
}

func init() {
	fmt.Println("INIT")
}

func main() {
	fmt.Println("MARK")
	body()
}

type N bool

func g(n N) N { return n }

func body() {
	var a, b int = 1, 2
	var c N = true
	var z N = (a < b) && c
	var y N = c && (a < b)
	var x bool = (a < b) && (b > a)
	w := a < b || a == b
	var v N = (a < b) || c
	u := c && c
	fmt.Println(z, y, x, w, v, u)
	fmt.Println(g(a < b && c), g(c || a > b))
	if a < b && c {
		fmt.Println("if")
	}
	for i := 0; i < 2 && c; i++ {
		fmt.Println("for", i)
	}
	var t bool = a < b && true
	var s = true && a < b
	fmt.Println(t, s, a < b && !c, !(a < b) || c)
	var i interface{} = a < b && c
	fmt.Println(i)
	fmt.Println(a < b && c)
}
