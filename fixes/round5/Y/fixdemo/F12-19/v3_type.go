package main

import "fmt"

var g0 = ginit()

func ginit() int {
	fmt.Println("GVAR")
	return 1
}

func init() {
	fmt.Println("INIT")
}

func main() {
	fmt.Println("MARK")
	body()
}

type N bool

func (n N) String() string { return "N!" }

func body() {
	var a int
	var c N = true
	x := (a <= a) && c
	y := a > a || c
	z := !(a != a) && c
	w := (a == a && a <= a) && c
	fmt.Println(x, y, z, w)
}
