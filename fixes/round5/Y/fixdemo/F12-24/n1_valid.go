package main

import "fmt"

var g0 = ginit()

func ginit() int {
	fmt.Println("GVAR")
	return 1
}

func init() {
	fmt.Println("INIT")
}

func main() {
	fmt.Println("MARK")
	body()
}

const k = 2
const (
	a0 = iota
	a1
	a2
)

type E int

const e1 E = 1

func body() {
	x := [3]string{k: "c", 0: "a"}
	y := []int{k + 1: 5, 1: 2}
	z := [...]string{a2: "two", a0: "zero", a1: "one"}
	w := []bool{e1: true}
	v := [4]int{1 << 1: 9, 'a' - 'a': 3}
	u := map[int]string{len(x): "m"}
	n := 1
	m := map[int]int{n: 1, n + 1: 2}
	t := [][2]int{k: {1: 7}}
	s := [5]int{1, 3: 4, 5}
	r := []float64{2.0: 1.5}
	q := [4]int{uint8(3): 1}
	fmt.Println(x, y, z, w, v, u, m, t, s, r, len(q))
	type P struct{ a, b int }
	p := []P{1: {1, 2}, 0: {a: 3}}
	pp := []*P{k: {b: 1}}
	fmt.Println(p, len(pp), pp[2].b)
}
