package main

import "fmt"

var g0 = ginit()

func ginit() int {
	fmt.Println("GVAR")
	return 1
}

func init() {
	fmt.Println("INIT")
}

func main() {
	fmt.Println("MARK")
	body()
}

type S struct{ i int }

func body() {
	s := S{1}
	x := []int{s.i: 1}
	_ = x
}
