package main

import "fmt"

var g0 = ginit()

func ginit() int {
	fmt.Println("GVAR")
	return 1
}

func init() {
	fmt.Println("INIT")
}

func main() {
	fmt.Println("MARK")
	body()
}

func f(i int) [2]bool { return [2]bool{i: true} }

func body() {
	f(1)
}
