package main

import "fmt"

var g0 = ginit()

func ginit() int {
	fmt.Println("GVAR")
	return 1
}

func init() {
	fmt.Println("INIT")
}

func main() {
	fmt.Println("MARK")
	body()
}

func f(c complex128) complex128 { return c * 2 }

func body() {
	fmt.Println(f(complex128(int(3))), complex64(int(1)+int(2)), complex128(uint(1)<<3))
	s := []complex64{complex64(int(1)), complex64(float32(2))}
	fmt.Println(s)
}
