package main

import "fmt"

var g0 = ginit()

func ginit() int {
	fmt.Println("GVAR")
	return 1
}

func init() {
	fmt.Println("INIT")
}

func main() {
	fmt.Println("MARK")
	body()
}

func body() {
	v := int(complex64(1))
	_ = v
}

func init() {
	const c complex128 = 3
	fmt.Println(int(complex64(1)), float64(complex128(2.5)), uint8(c), float32(c)/2)
}
