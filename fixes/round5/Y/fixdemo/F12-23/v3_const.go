package main

import "fmt"

var g0 = ginit()

func ginit() int {
	fmt.Println("GVAR")
	return 1
}

func init() {
	fmt.Println("INIT")
}

func main() {
	fmt.Println("MARK")
	body()
}

const c = complex64(int(2))
const d complex128 = complex128(float64(1) / 4)

var g = complex64(int8(5)) + 1i

func body() {
	fmt.Println(c, d, g, c*c)
	var x complex64 = complex64(int(1)) + complex64(2.5)
	fmt.Println(x)
}
