package main

import "fmt"

var g0 = ginit()

func ginit() int {
	fmt.Println("GVAR")
	return 1
}

func init() {
	fmt.Println("INIT")
}

func main() {
	fmt.Println("MARK")
	body()
}

type C complex128

func body() {
	var c64 complex64 = 1 + 2i
	fmt.Println(complex128(c64), complex64(complex128(3i)), complex64(1), complex128(2.5), complex64(1+1i), C(c64), C(7))
	fmt.Println(float64(int(3)), int(float64(4)), uint8(int(200)), string(rune(65)), float32(int8(-1)), int64(uint32(9)))
	i := 3
	fmt.Println(float64(i), complex(float64(i), 0), int8(i))
	const k = 5
	fmt.Println(complex64(k), complex128(k)/2, float64(k)/2)
}
