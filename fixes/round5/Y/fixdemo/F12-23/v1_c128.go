package main

import "fmt"

var g0 = ginit()

func ginit() int {
	fmt.Println("GVAR")
	return 1
}

func init() {
	fmt.Println("INIT")
}

func main() {
	fmt.Println("MARK")
	body()
}

func body() {
	v0 := complex128(int(3))
	v1 := complex64(float64(1.5))
	v2 := complex128(float32(2.5))
	v3 := complex64(uint8(200))
	v4 := complex128(int64(-7))
	fmt.Println(v0, v1, v2, v3, v4)
	fmt.Printf("%T %T %T\n", v0, v1, v3)
}
