package main

import "fmt"

var g0 = ginit()

func ginit() int {
	fmt.Println("GVAR")
	return 1
}

func init() {
	fmt.Println("INIT")
}

func main() {
	fmt.Println("MARK")
	body()
}

type C complex64
type I int

const k I = 4
const f float64 = 0.5

func body() {
	v0 := C(int(1))
	v1 := complex128(k)
	v2 := C(f)
	fmt.Println(v0, v1, v2, real(v1), imag(v2))
}
