package main

import "fmt"

var g0 = ginit()

func ginit() int {
	fmt.Println("GVAR")
	return 1
}

func init() {
	fmt.Println("INIT")
}

func main() {
	fmt.Println("MARK")
	body()
}

func body() {
	v := complex128(string("a"))
	_ = v
}
