package main

import "fmt"

var g0 = ginit()

func ginit() int {
	fmt.Println("GVAR")
	return 1
}

func init() {
	fmt.Println("INIT")
}

func main() {
	fmt.Println("MARK")
	body()
}

func body() {
	v0 := complex64(int(0))
	_ = v0
	fmt.Println(v0)
}
