package main

import "fmt"

var g0 = ginit()

func ginit() int {
	fmt.Println("GVAR")
	return 1
}

func init() {
	fmt.Println("INIT")
}

func main() {
	fmt.Println("MARK")
	body()
}

func f0() {}

func body() {
	var f float64 = float64(f0())
	_ = f
}
