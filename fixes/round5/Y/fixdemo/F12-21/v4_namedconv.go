package main

import "fmt"

var g0 = ginit()

func ginit() int {
	fmt.Println("GVAR")
	return 1
}

func init() {
	fmt.Println("INIT")
}

func main() {
	fmt.Println("MARK")
	body()
}

type T int

func pair() (int, string) { return 1, "a" }

func body() {
	fmt.Println(T(pair()))
}
