package main

import "fmt"

var g0 = ginit()

func ginit() int {
	fmt.Println("GVAR")
	return 1
}

func init() {
	fmt.Println("INIT")
}

func main() {
	fmt.Println("MARK")
	body()
}

type S struct{}

func (S) pair() (int, error) { return 1, nil }

func (s S) one() int { return s.pair() }

func body() {
	S{}.one()
}
