package main

import "fmt"

var g0 = ginit()

func ginit() int {
	fmt.Println("GVAR")
	return 1
}

func init() {
	fmt.Println("INIT")
}

func main() {
	fmt.Println("MARK")
	body()
}

type T int
type S struct{}

func one() int                 { return 7 }
func pair() (int, int)         { return 1, 2 }
func tri() (int, string, bool) { return 1, "a", true }
func none()                    {}
func str() string              { return "s" }

func (S) pair() (int, error) { return 1, nil }
func (s S) fwd() (int, error) { return s.pair() }

func h2() (int, int)            { return pair() }
func h3() (a int, b string, c bool) { return tri() }
func h1() int                   { return one() }
func h0()                       { none(); return }
func hi() interface{}           { return one() }
func hf() float64               { return float64(one()) }
func hb() (int, error)          { return fmt.Println("bin") }
func hl() int                   { return len("abc") }
func hc() T                     { return T(one()) }
func named() (x, y int)         { x, y = pair(); return }

func body() {
	fmt.Println(int(one()), T(one()), float64(one()), []byte(str()), interface{}(one()), string(rune(one()+60)))
	fmt.Println(int64(len(str())), T(int(one())))
	fmt.Println(h2())
	fmt.Println(h3())
	fmt.Println(h1(), hi(), hf(), hl(), hc())
	h0()
	fmt.Println(hb())
	fmt.Println(S{}.fwd())
	fmt.Println(named())
	a, b := pair()
	fmt.Println(a, b, (one()))
	fmt.Println(error(nil) == nil)
	f := func() (int, int) { return pair() }
	fmt.Println(f())
	p := (*S)(nil)
	fmt.Println(p == nil)
}
