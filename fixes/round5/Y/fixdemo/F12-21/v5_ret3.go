package main

import "fmt"

var g0 = ginit()

func ginit() int {
	fmt.Println("GVAR")
	return 1
}

func init() {
	fmt.Println("INIT")
}

func main() {
	fmt.Println("MARK")
	body()
}

func tri() (int, int, int) { return 1, 2, 3 }

func h() (int, int) { return tri() }

func body() {
	h()
}
