package main

import "fmt"

var g0 = ginit()

func ginit() int {
	fmt.Println("GVAR")
	return 1
}

func init() {
	fmt.Println("INIT")
}

func main() {
	fmt.Println("MARK")
	body()
}

func pair() (string, int) { return "a", 2 }

func body() {
	b := []byte(pair())
	_ = b
}
