package main

import "fmt"

var g0 = ginit()

func ginit() int {
	fmt.Println("GVAR")
	return 1
}

func init() {
	fmt.Println("INIT")
}

func main() {
	fmt.Println("MARK")
	body()
}

func f0() (string, int16) {
	return "a", 200 * 200
}

func body() {
	_, _ = f0()
}
