package main

import "fmt"

var g0 = ginit()

func ginit() int {
	fmt.Println("GVAR")
	return 1
}

func init() {
	fmt.Println("INIT")
}

func main() {
	fmt.Println("MARK")
	body()
}

func f0() float32 {
	return 1e38 * 10
}

func body() {
	_ = f0()
}
