package main

import "fmt"

var g0 = ginit()

func ginit() int {
	fmt.Println("GVAR")
	return 1
}

func init() {
	fmt.Println("INIT")
}

func main() {
	fmt.Println("MARK")
	body()
}

func f0() int8 {
	return (100 + 20) + 10
}

func body() {
	_ = f0()
}
