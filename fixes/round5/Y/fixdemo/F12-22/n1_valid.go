package main

import "fmt"

var g0 = ginit()

func ginit() int {
	fmt.Println("GVAR")
	return 1
}

func init() {
	fmt.Println("INIT")
}

func main() {
	fmt.Println("MARK")
	body()
}

type T int8
type F float64

const k = 10

func a() int8               { return 100 + 27 }
func b() int                { return 1 << 62 }
func c() uint8              { return 16*16 - 1 }
func d() float64            { return 1 / 2 }
func e() float64            { return 1 / 2.0 }
func f() float32            { return 7.0 / 2.0 * 2 }
func g() interface{}        { return 1 + 2 }
func h() interface{}        { return 1.5 * 2 }
func i() string             { return "a" + "b" }
func j() (int, float64)     { return 1 + 1, 2 * 3 }
func l() T                  { return k * 12 }
func m() F                  { return k / 4 }
func n() int                { return 7.0 / 2.0 * 2 }
func o() uint64             { return 1<<40 - 1 }
func p() complex128         { return 1 + 2i }
func q() bool               { return 1 < 2 }
func r() rune               { return 'a' + 1 }
func s() byte               { return 'a' + 1 }
func t(x int) int           { return x + 100 + 100 }
func u(x int8) int8         { return x + 100 }
func v() int                { return k + len("abc") }
func w() (x int)            { return 2 * k }
func y() fmt.Stringer       { return nil }
func z() error              { return fmt.Errorf("e%d", 1+1) }
func aa() int               { return -(1 + 2) }
func ab() interface{}       { return 1 << 3 }
func ac() float64           { return 1 << 3 }
func ad() any               { return "a" + "b" }
func ae() int64             { return (1 + 2) * (3 + 4) }

func body() {
	fmt.Println(a(), b(), c(), d(), e(), f(), g(), h(), i())
	fmt.Println(j())
	fmt.Println(l(), m(), n(), o(), p(), q(), r(), s(), t(1), u(1), v(), w(), y(), z())
	fmt.Println(aa(), ab(), ac(), ad(), ae())
	fmt.Printf("%T %T %T %T\n", g(), h(), ab(), ad())
	fn := func() int16 { return 100 * 100 }
	fmt.Println(fn())
}
