package main

import "fmt"

var g0 = ginit()

func ginit() int {
	fmt.Println("GVAR")
	return 1
}

func init() {
	fmt.Println("INIT")
}

func main() {
	fmt.Println("MARK")
	body()
}

func body() {
	m := map[string]int{"a": 1}
	var k int
	var v int
	for k, v = range m {
		_, _ = k, v
	}
}
