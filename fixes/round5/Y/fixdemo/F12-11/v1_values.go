package main

import "fmt"

var g0 = ginit()

func ginit() int {
	fmt.Println("GVAR")
	return 1
}

func init() {
	fmt.Println("INIT")
}

func main() {
	fmt.Println("MARK")
	body()
}

type C chan int
type R <-chan int

func body() {
	a := make(chan int)
	var b <-chan int = a
	var s chan<- int = a
	other := make(chan int)
	var ro <-chan int = other
	fmt.Println(a == b, b == a, a != b, a == s, s != a, a == ro, ro == a, a != ro)
	var na chan int
	var nb <-chan int
	fmt.Println(na == nb, na != nb, a == nb, nb != a)
	var c C = a
	var r R = a
	fmt.Println(c == b, b == c, a == r, r != a, c == a)
	if a == b {
		fmt.Println("if eq")
	}
	if a != ro {
		fmt.Println("if ne")
	}
	for i := 0; a == b && i < 2; i++ {
		fmt.Println("for", i)
	}
	x := a == b && other != b
	var e interface{} = a == b
	fmt.Println(x, e)
	switch {
	case a == ro:
		fmt.Println("bad")
	case a == b:
		fmt.Println("switch ok")
	}
}
