package main

import "fmt"

var g0 = ginit()

func ginit() int {
	fmt.Println("GVAR")
	return 1
}

func init() {
	fmt.Println("INIT")
}

func main() {
	fmt.Println("MARK")
	body()
}

type C chan int

func body() {
	a := make(chan int)
	b := a
	c := make(chan int)
	var d C = a
	var e C = a
	var n chan int
	fmt.Println(a == b, a == c, a != c, d == e, d != e, n == nil, a != nil, nil == n, d == a)
	var r1, r2 <-chan int = a, a
	var r3 <-chan int = c
	fmt.Println(r1 == r2, r1 == r3, r1 != r3)
	var i1, i2 interface{} = a, r1
	fmt.Println(i1 == i2, i1 == interface{}(b), i1 == a)
	type K struct{ c chan int }
	fmt.Println(K{a} == K{b}, K{a} == K{c})
	m := map[chan int]int{a: 1}
	fmt.Println(m[b], m[c])
	if a == b && a != c {
		fmt.Println("ok")
	}
}
