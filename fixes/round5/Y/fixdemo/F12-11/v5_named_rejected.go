package main

import "fmt"

var g0 = ginit()

func ginit() int {
	fmt.Println("GVAR")
	return 1
}

func init() {
	fmt.Println("INIT")
}

func main() {
	fmt.Println("MARK")
	body()
}

type C chan int
type R <-chan int

func body() {
	var a C
	var b R
	fmt.Println(a == b)
}
