package main

import "fmt"

var g0 = ginit()

func ginit() int {
	fmt.Println("GVAR")
	return 1
}

func init() {
	fmt.Println("INIT")
}

func main() {
	fmt.Println("MARK")
	body()
}

type S struct {
	in  chan<- string
	out <-chan string
}

func mk() (chan string, S) {
	c := make(chan string, 1)
	return c, S{c, c}
}

func body() {
	c, s := mk()
	fmt.Println(c == s.in, c == s.out, s.in != c)
	cs := []<-chan string{c, nil}
	fmt.Println(cs[0] == c, cs[1] == c, c != cs[1])
	m := map[string]chan<- string{"a": c}
	fmt.Println(m["a"] == c, m["b"] == c)
	f := func(r <-chan string) bool { return r == c }
	fmt.Println(f(c), f(nil), f(make(chan string)))
}
