package main

import "fmt"

var g0 = ginit()

func ginit() int {
	fmt.Println("GVAR")
	return 1
}

func init() {
	fmt.Println("INIT")
}

func main() {
	fmt.Println("MARK")
	body()
}

type S struct{ a int }
type E interface{ M() }

func body() {
	var p *S = nil
	v := (*S)(nil)
	var e interface{} = nil
	w := interface{}(nil)
	var s []int = []int(nil)
	m := map[string]int(nil)
	f := (func())(nil)
	c := (chan int)(nil)
	var ee E = E(nil)
	fmt.Println(p == nil, v == nil, e == nil, w == nil, s == nil, m == nil, f == nil, c == nil, ee == nil)
	_, ok := e.(int)
	fmt.Println(ok)
	if p == nil {
		fmt.Println("nil p")
	}
	for i := 0; p == nil && i < 2; i++ {
		fmt.Println("loop", i)
	}
	var x uint = 3
	fmt.Println(1<<x, true && (x > 1), !false)
	const t = true
	if t {
		fmt.Println("t")
	}
	for true {
		break
	}
	a, b := 1, error(nil)
	fmt.Println(a, b)
	var up = (*int)(nil)
	fmt.Println(up)
}
