package main

import "fmt"

var g0 = ginit()

func ginit() int {
	fmt.Println("GVAR")
	return 1
}

func init() {
	fmt.Println("INIT")
}

func main() {
	fmt.Println("MARK")
	body()
}

type S struct{ a int }

func body() {
	v := S(nil)
	_ = v
}
