package main

import "fmt"

var g0 = ginit()

func ginit() int {
	fmt.Println("GVAR")
	return 1
}

func init() {
	fmt.Println("INIT")
}

func main() {
	fmt.Println("MARK")
	body()
}

type B bool

func cond() bool { return true }

func body() {
	var b B = true
	if b {
		fmt.Println("named bool")
	}
	if cond() {
		fmt.Println("call")
	}
	for b {
		b = false
	}
	var i interface{} = true
	if i.(bool) {
		fmt.Println("assert")
	}
	if bb := bool(b); bb {
		fmt.Println("no")
	} else {
		fmt.Println("else")
	}
	m := map[string]bool{"a": true}
	if m["a"] {
		fmt.Println("map")
	}
	var pb *bool = new(bool)
	if !*pb {
		fmt.Println("ptr")
	}
}
