package main

import "fmt"

var g0 = ginit()

func ginit() int {
	fmt.Println("GVAR")
	return 1
}

func init() {
	fmt.Println("INIT")
}

func main() {
	fmt.Println("MARK")
	body()
}

const k int = 2

func body() {
	var a int = 3
	var u8 uint8 = 200
	fmt.Println(a<<int(2), a<<k, a>>int8(1), u8<<uint8(1), a<<uint(0), 1<<int(3), a<<(int(3)-int(1)))
	a <<= int64(1)
	fmt.Println(a)
	n := 2
	fmt.Println(a<<n, a>>n)
	var z [0]int
	fmt.Println(len(z), z[:], z[0:0], z[:0])
	for i := range z {
		fmt.Println(z[i])
	}
	s := []int{2: 5}
	fmt.Println(s, len(s))
	s2 := []string{0: "a", 3: "d"}
	fmt.Println(len(s2), s2[3])
	arr := [3]int{2: 1}
	fmt.Println(arr, arr[2], arr[0])
	arr2 := [...]int{4: 1}
	fmt.Println(len(arr2))
	e := []int{}
	fmt.Println(len(e))
	var one [1]int
	fmt.Println(one[0])
	p := &one
	fmt.Println(p[0])
	str := "abc"
	fmt.Println(str[0], str[2])
	mk := make([]int, 0)
	fmt.Println(len(mk))
}
