package main

import "fmt"

var g0 = ginit()

func ginit() int {
	fmt.Println("GVAR")
	return 1
}

func init() {
	fmt.Println("INIT")
}

func main() {
	fmt.Println("MARK")
	body()
}

func body() {
	defer func() { fmt.Println("recovered:", recover()) }()
	var a int = 3
	n := -1
	fmt.Println(a << n)
}
