package main

import "fmt"

var g0 = ginit()

func ginit() int {
	fmt.Println("GVAR")
	return 1
}

func init() {
	fmt.Println("INIT")
}

func main() {
	fmt.Println("MARK")
	body()
}

func body() {
	defer func() { fmt.Println("recovered:", recover() != nil) }()
	var z [0]int
	i := 0
	fmt.Println(z[i])
}
