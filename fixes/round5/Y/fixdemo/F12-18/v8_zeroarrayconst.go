package main

import "fmt"

var g0 = ginit()

func ginit() int {
	fmt.Println("GVAR")
	return 1
}

func init() {
	fmt.Println("INIT")
}

func main() {
	fmt.Println("MARK")
	body()
}

const i = 0

type A [0]byte

func body() {
	var z A
	fmt.Println(z[i])
}
