package main

import "fmt"

var g0 = ginit()

func ginit() int {
	fmt.Println("GVAR")
	return 1
}

func init() {
	fmt.Println("INIT")
}

func main() {
	fmt.Println("MARK")
	body()
}

const k int = -2

func body() {
	var a uint8 = 4
	x := a << k
	_ = x
}
