package main

import "fmt"

var g0 = ginit()

func ginit() int {
	fmt.Println("GVAR")
	return 1
}

func init() {
	fmt.Println("INIT")
}

func main() {
	fmt.Println("MARK")
	body()
}

func body() {
	z := [0]int{0: 1}
	_ = z
}
