#!/bin/bash
# usage: cmp.sh <yaegi binary> <file.go>...
# Compares `go run` with the interpreter: same stdout and same class of result
# (ok / compile error / run-time panic).
export GOFLAGS=-mod=mod GOPROXY=off GOSUMDB=off GOTOOLCHAIN=local
Y=$1; shift
for f in "$@"; do
	d=$(mktemp -d)
	cp "$f" $d/main.go
	(cd $d && cat > go.mod <<EOF
module demo
go 1.23
EOF
	go run main.go >$d/go.out 2>$d/go.err; echo $? >$d/go.rc)
	grc=$(cat $d/go.rc)
	gclass=ok
	if [ $grc -ne 0 ]; then
		if grep -q '^panic:\|^fatal error:' $d/go.err; then gclass=panic; else gclass=compile-error; fi
	fi
	timeout 60 $Y run $d/main.go >$d/y.out 2>$d/y.err; yrc=$?
	yclass=ok
	if [ $yrc -ne 0 ]; then
		if grep -q 'goroutine \|runtime error\|\[recovered\]' $d/y.err; then yclass=GO-PANIC
		elif grep -q '^panic:\|^run: .*panic' $d/y.err || [ -s $d/y.out ]; then yclass=panic
		else yclass=compile-error; fi
	fi
	if [ "$gclass" = "$yclass" ] && cmp -s $d/go.out $d/y.out; then
		echo "SAME  $f [$gclass] $( [ $gclass != ok ] && head -c 150 $d/y.err | head -2 | tr '\n' ' ')"
	else
		echo "DIFF  $f go=$gclass yaegi=$yclass"
		echo "  go.err: $(grep -v '^#' $d/go.err | head -3)"
		echo "  y.err:  $(head -3 $d/y.err)"
		echo "  go.out: $(head -3 $d/go.out | tr '\n' '|')"
		echo "  y.out:  $(head -3 $d/y.out | tr '\n' '|')"
	fi
	rm -rf $d
done
