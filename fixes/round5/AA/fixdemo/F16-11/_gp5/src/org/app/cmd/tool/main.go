package main

import "org/other"

func main() { println(other.Name) }
