package other

import "v"

const Name = "other+" + v.Name
