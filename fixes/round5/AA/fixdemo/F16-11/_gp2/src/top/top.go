package top

import "dep"

const Name = "top+" + dep.Name
