package dep

const Name = "gopath/dep"
