package sub

import (
	"dep"
	"top"
)

const Name = "sub+" + dep.Name + "+" + top.Name
