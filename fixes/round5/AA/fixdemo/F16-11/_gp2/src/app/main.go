package main

import (
	"app/sub"
	"lib"
	"top"
)

func main() { println(lib.Name); println(sub.Name); println(top.Name) }
