package main

import "lib"

func main() { println(lib.Name) }
