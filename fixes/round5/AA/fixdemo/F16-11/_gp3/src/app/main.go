package main

import (
	"app/a/b"
	"app/sub"
	"x"
)

func main() { println(x.Name); println(sub.Name); println(b.Name) }
