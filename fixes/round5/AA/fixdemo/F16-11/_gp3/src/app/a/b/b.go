package b

import "x"

const Name = "b+" + x.Name
