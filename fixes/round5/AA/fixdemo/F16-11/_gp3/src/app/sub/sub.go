package sub

import "x"

const Name = "sub+" + x.Name
