package main

import (
	"org/app/pk"
	"v"
)

func main() { println(v.Name); println(pk.Name) }
