package pk

import "v"

const Name = "pk+" + v.Name
