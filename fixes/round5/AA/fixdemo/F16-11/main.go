package main

import (
	"fmt"
	"os"
	"path/filepath"

	"github.com/traefik/yaegi/interp"
	"github.com/traefik/yaegi/stdlib"
)

func main() {
	gp, _ := filepath.Abs(os.Args[1])
	i := interp.New(interp.Options{GoPath: gp, Stdout: os.Stderr})
	i.Use(stdlib.Symbols)
	if _, err := i.EvalPath(filepath.Join(gp, "src/"+os.Args[2]+"/main.go")); err != nil {
		fmt.Println("ERR", err)
	}
}
