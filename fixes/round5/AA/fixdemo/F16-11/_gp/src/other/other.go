package other

import "lib"

const Name = "other+" + lib.Name
