package main

import "other"

func main() { println(other.Name) }
