package main

import (
	"fmt"
	"os"

	"github.com/traefik/yaegi/fixdemo/hp"
	"github.com/traefik/yaegi/interp"
	"github.com/traefik/yaegi/stdlib"
)

func main() {
	src, _ := os.ReadFile(os.Args[1])
	i := interp.New(interp.Options{})
	i.Use(stdlib.Symbols)
	i.Use(hp.Symbols)
	if _, err := i.Eval(string(src)); err != nil {
		fmt.Println("ERR", err)
	}
	fmt.Println("host:", hp.Show())
}
