package main

import (
	"fmt"
	"github.com/traefik/yaegi/fixdemo/hp"
)

func mk() []int                    { return []int{8, 8} }
func mk2() (map[string]int, hp.Pt) { return map[string]int{"z": 26}, hp.Pt{5, 6} }
func inc(x int) int                { return x + 1 }

func main() {
	hp.VS = []int{7}
	fmt.Println(hp.VS, hp.Show())
	hp.VS = mk()
	fmt.Println(hp.VS, hp.Show())
	hp.VS = append(hp.VS, 3)
	fmt.Println(hp.VS, hp.Show())
	hp.VM = map[string]int{"b": 2}
	hp.VP = hp.Pt{3, 4}
	fmt.Println(hp.VM, hp.VP, hp.Show())
	hp.VM, hp.VP = mk2()
	fmt.Println(hp.VM, hp.VP, hp.Show())
	a, b := 2, 3
	hp.VI = a + b
	hp.VF = float64(a) * 2.5
	fmt.Println(hp.VI, hp.VF, hp.Show())
	hp.VI = inc(hp.VI)
	hp.VI += 10
	hp.VI++
	fmt.Println(hp.VI, hp.Show())
	hp.VPS = &hp.Pt{9, 9}
	hp.VPP = new(int)
	hp.VFN = func(x int) int { return x * 3 }
	hp.VFN = inc
	hp.VPI = hp.Pt{1, 1}
	hp.VPI = []string{"x"}
	hp.VStr = fmt.Sprint("a", 1)
	hp.VStr = hp.VStr + "!"
	hp.VS, hp.VI = []int{1}, len(hp.VS)
	t := []int{4, 5}
	hp.VS = t
	hp.VS = hp.VS[1:]
	hp.VI = -hp.VI
	fmt.Println(hp.Show())
}
