package main

import (
	"fmt"

	"github.com/traefik/yaegi/interp"
	"github.com/traefik/yaegi/stdlib"
)

func ev(i *interp.Interpreter, s string) {
	v, err := i.Eval(s)
	if err != nil {
		fmt.Printf("%-28q -> ERR %v\n", s, err)
		return
	}
	if v.IsValid() && v.Kind() != 19 {
		fmt.Printf("%-28q -> %v\n", s, v)
	} else {
		fmt.Printf("%-28q -> ok (%v)\n", s, v.IsValid())
	}
}

func main() {
	i := interp.New(interp.Options{})
	i.Use(stdlib.Symbols)
	ev(i, `package main
var G = 5
type T struct{ A int }
func F(x int) int { return x + G }
func Run() int { G++; return G }
`)
	ev(i, "main.F(1)")
	ev(i, "main.G")
	ev(i, "main.Run()")
	ev(i, "main.G")
	ev(i, "G")
	ev(i, "func() {}()")
	ev(i, "main.F(1)")
	ev(i, "main.Run()")
	ev(i, "main.G")
	ev(i, "F(1)")
	ev(i, "main.T{A: 3}")
	ev(i, "x := 3")
	ev(i, "main.x")
	ev(i, "x")
	ev(i, "G = 40")
	ev(i, "main.G")
	ev(i, "main.G = 50")
	ev(i, "G")
	ev(i, "main.G")
	ev(i, "func H() int { return 9 }")
	ev(i, "main.H()")
}
