package main

import (
	"fmt"
	"reflect"

	"github.com/traefik/yaegi/interp"
	"github.com/traefik/yaegi/stdlib"
)

func ev(i *interp.Interpreter, s string) {
	v, err := i.Eval(s)
	switch {
	case err != nil:
		fmt.Printf("%-44q -> ERR %v\n", s, err)
	case v.IsValid() && v.Kind() == reflect.Func:
		fmt.Printf("%-44q -> func %v\n", s, v.Type())
	case v.IsValid():
		fmt.Printf("%-44q -> %v (%v)\n", s, v, v.Type())
	default:
		fmt.Printf("%-44q -> invalid\n", s)
	}
}

func main() {
	i := interp.New(interp.Options{})
	i.Use(stdlib.Symbols)
	ev(i, "package main\nimport \"fmt\"\nvar G = 5\nfunc F(x int) int { return x + G }\nfunc P() { fmt.Println(\"P\", G) }")
	ev(i, "func() int { return 3 }()")
	ev(i, "main.F(1)")
	ev(i, "func(a int) int { return a * 2 }(4)")
	ev(i, "func() {}()")
	ev(i, "func() { G = 9 }(); main.P()")
	ev(i, "func H() int { return 11 }")
	ev(i, "H()")
	ev(i, "main.H()")
	ev(i, "func(s string) string { return s + \"!\" }")
	ev(i, "f := func() int { return G }")
	ev(i, "f()")
	ev(i, "func() (int, string) { return 1, \"a\" }()")
	ev(i, "func (x T) M() int { return 1 }")
	ev(i, "type T int")
	ev(i, "func (x T) M() int { return int(x) }")
	ev(i, "T(4).M()")
	ev(i, "main.T(5).M()")
	ev(i, "func main() { println(\"in main\") }")
	ev(i, "main.F(2)")
	ev(i, "func() {")
	ev(i, "defer func() { recover() }()")
}
