package main

import (
	"fmt"
	"os"
	"reflect"
	"sort"

	"github.com/traefik/yaegi/fixdemo/hp"
	"github.com/traefik/yaegi/interp"
	"github.com/traefik/yaegi/stdlib"
)

func try(name string, f func()) {
	defer func() {
		if r := recover(); r != nil {
			fmt.Println("  PANIC", name, r)
		}
	}()
	f()
}

func main() {
	src, _ := os.ReadFile(os.Args[1])
	i := interp.New(interp.Options{})
	i.Use(stdlib.Symbols)
	i.Use(hp.Symbols)
	if _, err := i.Eval(string(src)); err != nil {
		fmt.Println("ERR", err)
	}
	g := i.Globals()
	names := []string{}
	for n := range g {
		names = append(names, n)
	}
	sort.Strings(names)
	for _, n := range names {
		v := g[n]
		if v.Kind() == reflect.Func {
			continue
		}
		fmt.Printf("%s: type %v value %v settable %v\n", n, v.Type(), v, v.CanSet())
		if v.Kind() == reflect.Interface || len(n) > 1 && n[0] == 'G' {
			try("set "+n, func() { v.Set(reflect.ValueOf("host")); fmt.Println("  set ok:", v) })
		}
	}
	if _, err := i.Eval("main.Show()"); err != nil {
		fmt.Println("ERR", err)
	}
	if _, err := i.Eval("main.Set()"); err != nil {
		fmt.Println("ERR", err)
	}
	for _, n := range names {
		if v := g[n]; v.Kind() != reflect.Func {
			fmt.Printf("%s: type %v value %v (old handle)\n", n, v.Type(), v)
		}
	}
	g = i.Globals()
	for _, n := range names {
		if v := g[n]; v.Kind() != reflect.Func {
			fmt.Printf("%s: type %v value %v (fresh)\n", n, v.Type(), v)
		}
	}
}
