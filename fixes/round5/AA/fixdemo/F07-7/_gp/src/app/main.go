package main

import "foo"

func main() {
	println(foo.V, foo.S, len(foo.P), foo.C)
	foo.Inc()
	println(foo.V, foo.S, len(foo.P), foo.C)
	foo.V = 10
	foo.V += 2
	foo.V++
	p := &foo.V
	*p++
	println(foo.V, foo.S, len(foo.P), foo.C)
	const k = foo.C + 1
	var a [foo.C]int
	println(k, len(a))
}
