package foo

var V = 5
var S = "a"
var P = []int{1}

const C = 7

func Inc() { V++; S += "b"; P = append(P, 2) }
