// Package hp is the host package of the demos.
package hp

import (
	"fmt"
	"reflect"
)

type Pt struct{ X, Y int }

func (p Pt) String() string { return fmt.Sprintf("Pt(%d,%d)", p.X, p.Y) }

type Counter struct{ N int }

func (c *Counter) Mix(a int8, b float64, s string, rest ...uint16) string {
	c.N++
	return fmt.Sprint("Mix ", a, " ", b, " ", s, " ", rest, " ", rest == nil, " n=", c.N)
}

func (c *Counter) Var0(rest ...int) string { return fmt.Sprint("Var0 ", rest, rest == nil) }

func (c *Counter) Var1(a string, rest ...interface{}) string {
	return fmt.Sprint("Var1 ", a, " ", rest, " ", len(rest))
}

func (c Counter) ValV(a uint8, b string, rest ...float32) string {
	return fmt.Sprint("ValV ", a, " ", b, " ", rest, " n=", c.N)
}

func (c *Counter) Fix(a int8, b float64, s string) string {
	return fmt.Sprint("Fix ", a, " ", b, " ", s)
}

type Mixer interface {
	Mix(a int8, b float64, s string, rest ...uint16) string
}

var (
	VS   = []int{1, 2}
	VM   = map[string]int{"a": 1}
	VP   = Pt{1, 2}
	VI   = 3
	VF   = 1.5
	VPP  *int
	VPI  interface{}
	VE   error
	VST  fmt.Stringer
	VC         = &Counter{}
	VMX  Mixer = &Counter{}
	VFN  func(int) int
	VPS  *Pt
	VStr = "s"
)

func Show() string {
	pp := "nil"
	if VPP != nil {
		pp = fmt.Sprint("&", *VPP)
	}
	ps := "nil"
	if VPS != nil {
		ps = fmt.Sprint("&", *VPS)
	}
	fn := "nil"
	if VFN != nil {
		fn = fmt.Sprint("fn(1)=", VFN(1))
	}
	return fmt.Sprint(VS, VM, VP, VI, VF, " ", pp, " ", VPI, " ", VE, " ", VST, " ", ps, " ", fn, " ", VStr)
}

var Symbols = map[string]map[string]reflect.Value{
	"hp/hp": {
		"Pt":      reflect.ValueOf((*Pt)(nil)),
		"Counter": reflect.ValueOf((*Counter)(nil)),
		"Mixer":   reflect.ValueOf((*Mixer)(nil)),
		"VS":      reflect.ValueOf(&VS).Elem(),
		"VM":      reflect.ValueOf(&VM).Elem(),
		"VP":      reflect.ValueOf(&VP).Elem(),
		"VI":      reflect.ValueOf(&VI).Elem(),
		"VF":      reflect.ValueOf(&VF).Elem(),
		"VPP":     reflect.ValueOf(&VPP).Elem(),
		"VPI":     reflect.ValueOf(&VPI).Elem(),
		"VE":      reflect.ValueOf(&VE).Elem(),
		"VST":     reflect.ValueOf(&VST).Elem(),
		"VC":      reflect.ValueOf(&VC).Elem(),
		"VMX":     reflect.ValueOf(&VMX).Elem(),
		"VFN":     reflect.ValueOf(&VFN).Elem(),
		"VPS":     reflect.ValueOf(&VPS).Elem(),
		"VStr":    reflect.ValueOf(&VStr).Elem(),
		"Show":    reflect.ValueOf(Show),
	},
}
