package main

import "fmt"

func f() (r int) {
	r = 5
	panic("x")
}

func main() {
	x := 1
	func() {
		defer func() { recover() }()
		x = f()
	}()
	fmt.Println(x)
}
