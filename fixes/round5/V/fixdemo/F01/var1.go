package main

import (
	"errors"
	"fmt"
)

type P struct{ X, Y int }

func f() (r int) {
	r = 5
	panic("x")
}

func f2() (p P, err error) {
	p = P{9, 9}
	err = errors.New("set")
	panic("x")
}

func f3() (s []int) {
	s = append(s, 1)
	var m map[string]int
	m["a"] = 1
	return
}

func rec(n int) (r int) {
	r = n
	if n == 0 {
		panic("bottom")
	}
	r = rec(n - 1)
	return
}

func recovers() (r int) {
	defer func() {
		recover()
		r = 7
	}()
	r = 5
	panic("x")
}

func deferMod() (r int) {
	defer func() { r *= 2 }()
	r = 4
	return r + 1
}

type T struct{ v int }

func (t T) m() (r int) {
	r = t.v
	panic("m")
}

func try(fn func()) {
	defer func() { recover() }()
	fn()
}

var G = 1

func main() {
	x := 1
	try(func() { x = f() })
	fmt.Println(x)

	p, err := P{1, 2}, error(nil)
	try(func() { p, err = f2() })
	fmt.Println(p, err)

	s := []int{7}
	try(func() { s = f3() })
	fmt.Println(s)

	r := -1
	try(func() { r = rec(3) })
	fmt.Println(r)

	try(func() { G = f() })
	fmt.Println(G)

	a := []int{1, 2}
	try(func() { a[1] = f() })
	fmt.Println(a)

	st := P{1, 2}
	try(func() { st.X = T{8}.m() })
	fmt.Println(st)

	y := 1
	y = recovers()
	fmt.Println(y)
	y = deferMod()
	fmt.Println(y)

	z := 1
	func() {
		defer func() { recover() }()
		z = f() + 1
	}()
	fmt.Println(z)

	var i interface{} = "keep"
	try(func() { i = f() })
	fmt.Println(i)

	v := 1
	try(func() { v += f() })
	fmt.Println(v)
}
