package main

import "fmt"

type P struct{ X, Y int }

func main() {
	x := 5
	s := []int{7, 8}
	for i, v := range s {
		fmt.Println(i, v)
	}
	for i := range s {
		fmt.Println(i)
	}
	for _, v := range s {
		x += v
	}
	for range s {
		x++
	}
	for i, c := range "aé" {
		fmt.Println(i, c)
	}
	for _, c := range "aé" {
		fmt.Println(c)
	}
	a := [2]P{{1, 2}, {3, 4}}
	for i, v := range &a {
		v.X = 9
		fmt.Println(i, v)
	}
	for i, v := range a {
		a[1].X = 100
		fmt.Println(i, v)
	}
	var fs []func()
	for i, v := range s {
		fs = append(fs, func() { fmt.Println(i, v) })
	}
	for _, f := range fs {
		f()
	}
	for i := range 3 {
		fmt.Println(i)
	}
	fmt.Println("done", x, s, a)
}
