package main

import "fmt"

type P struct{ X, Y int }

func arr() {
	x := [3]int{1, 2, 3}
	s := [2]string{"a", "b"}
	n := 0
	for i, _ := range s {
		n += i
	}
	fmt.Println("arr", x, s, n)
}

func ptrArr() {
	first := "keep"
	a := [3]P{{1, 2}, {3, 4}, {5, 6}}
	pa := &a
	for i, _ := range pa {
		fmt.Println(i)
	}
	fmt.Println("ptrArr", first, a)
}

func nilPtrArr() {
	first := 1.5
	var pa *[4]int
	c := 0
	for i, _ := range pa {
		c += i
	}
	fmt.Println("nilPtrArr", first, c)
}

func assignForm() {
	x := 5
	s := []int{7, 8, 9}
	var i int
	for i, _ = range s {
	}
	for _, _ = range s {
		x++
	}
	_ = i
	fmt.Println("assign", x, s)
}

func str() {
	x := 42
	n := 0
	for i, _ := range "héllo" {
		n += i
	}
	fmt.Println("str", x, n)
}

func param(p int, s []P) (r int) {
	for i, _ := range s {
		r += i
	}
	fmt.Println("param", p, r)
	return
}

func nested() {
	x := []int{100}
	m := [][]int{{1, 2}, {3}}
	for i, _ := range m {
		for j, _ := range m[i] {
			fmt.Println(i, j)
		}
	}
	fmt.Println("nested", x, m)
}

func closure() {
	x := 5
	s := []int{7, 8}
	var fs []func() int
	for i, _ := range s {
		fs = append(fs, func() int { return i + x })
	}
	for _, f := range fs {
		fmt.Println(f())
	}
}

func mapBlank() {
	x := 5
	m := map[string]int{"a": 1}
	for k, _ := range m {
		fmt.Println(k)
	}
	fmt.Println("map", x)
}

func main() {
	arr()
	ptrArr()
	nilPtrArr()
	assignForm()
	str()
	param(3, []P{{1, 1}, {2, 2}})
	nested()
	closure()
	mapBlank()
}
