package main

import "fmt"

func main() {
	x := 5
	s := []int{7, 8}
	for i, _ := range s {
		fmt.Println(i)
	}
	fmt.Println("done", x, s)
}
