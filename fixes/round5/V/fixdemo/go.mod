module fixdemo

go 1.22
