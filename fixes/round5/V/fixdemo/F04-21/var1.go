package main

import (
	"fmt"
	"reflect"
)

type P struct{ X, Y int }

type T struct{ Pt *int }

type Q struct {
	In  P
	Arr *[2]P
}

func main() {
	a := [3]P{{3, 3}, {3, 5}, {4, 3}}
	pa := &a
	b := &[3]int{1, 2, 3}
	fmt.Println(P{pa[1].Y, 8})
	fmt.Println(P{(*pa)[1].Y, 8})
	fmt.Println([]int{pa[0].X})
	fmt.Println(*T{&b[0]}.Pt)
	fmt.Println([]int{pa[0].X, (*pa)[2].X, b[1]})
	fmt.Println([2]P{pa[1], {pa[2].X, pa[0].Y}})
	fmt.Println(map[string]int{"a": pa[1].Y}, map[int]string{pa[1].Y: "k"})
	q := Q{P{pa[0].X, pa[1].Y}, &[2]P{{1, 2}, {3, 4}}}
	fmt.Println(q.In, *q.Arr)
	fmt.Println(P{q.Arr[1].X, q.Arr[0].Y})
	pq := &q
	fmt.Println(P{pq.Arr[1].X, (*pq).Arr[0].Y})
	fmt.Println([]*int{&b[2], &pa[1].X}[0] == &b[2])
	fs := reflect.VisibleFields(reflect.TypeOf(P{}))
	fmt.Println([]string{fs[0].Name, fs[1].Name})
	pfs := &[1]reflect.StructField{fs[1]}
	fmt.Println([]string{pfs[0].Name})
	m := map[string]*[2]P{"k": {{7, 8}, {9, 10}}}
	fmt.Println(P{m["k"][1].X, 0})
	ppa := &pa
	fmt.Println(P{(*ppa)[1].Y, (**ppa)[2].X})
	x, y := 1, 2
	px := &x
	fmt.Println([]int{*px, y}, []*int{px, &y}[1] == &y)
}
