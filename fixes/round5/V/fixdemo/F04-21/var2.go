package main

import (
	"fmt"
	"strings"
)

type P struct{ X, Y int }

func (p P) Sum() int { return p.X + p.Y }

type S struct {
	L []int
	N string
}

type W struct {
	A [2][2]P
}

type G[T any] struct{ V T }

func ret() *[2]P { return &[2]P{{1, 2}, {3, 4}} }

func main() {
	a := [3]P{{3, 3}, {3, 5}, {4, 3}}
	pa := &a
	ss := &[2]S{{[]int{1, 2, 3}, "a"}, {[]int{4, 5}, "b"}}
	fmt.Println([][]int{ss[0].L[1:], ss[1].L[:1]})
	fmt.Println([]int{pa[1].Sum(), ss[0].L[2]})
	fmt.Println([]string{ss[1].N, strings.ToUpper(ss[0].N)})
	w := &W{}
	w.A[1][0] = P{7, 8}
	pw := &w.A
	fmt.Println(P{pw[1][0].X, pw[1][0].Y})
	fmt.Println([]P{ret()[1], {ret()[0].Y, 1}})
	fmt.Println(P{ret()[1].X, 0})
	fmt.Println(G[int]{pa[2].X}, G[P]{pa[2]})
	fmt.Println([]interface{}{pa[0].X, &pa[0].Y != nil, ss[0].N})
	fmt.Println([]func() int{pa[1].Sum}[0]())
	fmt.Println(struct {
		A int
		B *int
	}{pa[1].Y, &pa[2].X}.A)
	fmt.Println(&P{pa[1].Y, 2}, []*P{{pa[1].Y, 3}}[0])
	fmt.Println(map[P]int{{pa[1].Y, 1}: pa[2].X})
	var ip interface{} = pa
	fmt.Println(P{ip.(*[3]P)[1].Y, 1})
	ch := make(chan *[3]P, 1)
	ch <- pa
	fmt.Println(P{(<-ch)[2].X, 1})
}
