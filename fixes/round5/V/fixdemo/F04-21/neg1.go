package main

import (
	"fmt"
	"os"
	"time"
)

type P struct{ X, Y int }

type N struct {
	P
	Next *N
	F    func(int) int
	D    time.Duration
	I    interface{}
}

type G[T any] struct{ V T }

type E int

const (
	E0 E = iota
	E1
)

func main() {
	a := [3]P{{3, 3}, {3, 5}, {4, 3}}
	s := a[:]
	m := map[string]P{"k": {1, 2}}
	q := &P{5, 6}
	n := N{P{1, 2}, nil, func(i int) int { return i * 2 }, time.Second, E1}
	n2 := &N{n.P, &n, n.F, 2 * time.Millisecond, nil}
	fmt.Println(P{a[1].Y, 8}, P{s[1].Y, 8}, P{m["k"].Y, 8}, P{q.X, (*q).Y}, P{X: a[1].Y})
	fmt.Println(n2.Next.X, n2.F(4), n2.D, n.I)
	fmt.Println([]int{n2.Next.P.Y, n2.Next.Y, len(os.Args) * 0})
	fmt.Println([]time.Duration{time.Second, n.D}, []E{E0, E1}, [...]string{2: "c", 0: "a"})
	fmt.Println([]*P{q, &a[0], {1, 1}}[2], [][]P{{{1, 2}}, s[:1]})
	fmt.Println(G[int]{3}, G[string]{V: "x"}, []G[int]{{1}, {2}})
	fmt.Println([]interface{}{nil, 1, "a", q.X, *q})
	fmt.Println(map[string][]int{"a": {1, 2}}, map[P]string{{1, 2}: "p"})
	fmt.Println(struct{ A, B int }{a[0].X, s[2].Y})
	fmt.Println([]error{nil, fmt.Errorf("e")}[1], []func() int{func() int { return 1 }}[0]())
	type L struct {
		v []int
		p *[2]int
	}
	l := L{[]int{1}, &[2]int{1, 2}}
	fmt.Println([]int{l.v[0], l.p[1], (*l.p)[0]}, L{v: l.v, p: l.p}.p[1])
}
