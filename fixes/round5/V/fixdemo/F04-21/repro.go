package main

import "fmt"

type P struct{ X, Y int }

func main() {
	a := [3]P{{3, 3}, {3, 5}, {4, 3}}
	pa := &a
	x := P{pa[1].Y, 8}
	fmt.Println(x)
}
