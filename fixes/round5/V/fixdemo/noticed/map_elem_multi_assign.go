package main

import "fmt"

func named2() (a, b int) { a, b = 11, 12; return }

func main() {
	mp := map[string]int{}
	mp["a"], mp["b"] = named2()
	fmt.Println(mp) // Go: map[a:11 b:12]; yaegi (before and after): map[]
}
