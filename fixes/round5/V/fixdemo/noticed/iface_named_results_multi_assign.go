package main

import "fmt"

type S interface{ Str() string }

type A string

func (a A) Str() string { return string(a) }

func iface2() (a, b S) {
	a, b = A("a"), A("b")
	return a, b
}

func main() {
	a, b := iface2()
	fmt.Println(a.Str(), b.Str())
}
