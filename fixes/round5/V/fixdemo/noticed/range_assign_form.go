package main

import "fmt"

func main() {
	s := []int{7, 8, 9}
	var k, v int
	for k, v = range s {
	}
	fmt.Println(k, v)
}
