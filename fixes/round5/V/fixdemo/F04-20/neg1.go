package main

import (
	"errors"
	"fmt"
	"sort"
	"strings"
)

type P struct{ X, Y int }

type Str interface{ String() string }

func (p P) String() string { return "P" }

type Node struct {
	Val  int
	Next *Node
}

func two() (int, string)           { return 1, "a" }
func named() (n int, s string)     { n, s = 2, "b"; return }
func three() (a, b, c int)         { return 1, 2, 3 }
func sum(a, b, c int) int          { return a + b + c }
func pair(i int, s string) string  { return fmt.Sprint(i, s) }
func vari(xs ...int) (n int)       { for _, x := range xs { n += x }; return }
func errf(ok bool) (P, error) {
	if ok {
		return P{1, 1}, nil
	}
	return P{}, errors.New("bad")
}
func iface() Str                   { return P{3, 4} }
func eface() interface{}           { return P{5, 6} }
func ifaceNamed() (s Str, e error) { s = P{7, 8}; return }
func list(n int) (head *Node) {
	for i := 0; i < n; i++ {
		head = &Node{i, head}
	}
	return
}
func fib(n int) int {
	if n < 2 {
		return n
	}
	return fib(n-1) + fib(n-2)
}
func fibn(n int) (r int) {
	if n < 2 {
		r = n
		return
	}
	r = fibn(n-1) + fibn(n-2)
	return
}
func mk() func() (int, int) {
	c := 0
	return func() (int, int) { c++; return c, c * c }
}
func deferred() (r int, err error) {
	defer func() {
		if e := recover(); e != nil {
			err = fmt.Errorf("recovered: %v", e)
			r = -1
		}
	}()
	var m map[int]int
	m[1] = 1
	return 1, nil
}
func fw() (int, string) { return named() }
func boolf(x int) bool  { return x > 1 }
func gen[T any](v T) (r T, ok bool) { r, ok = v, true; return }

type M struct{ f func(int) (int, error) }

func main() {
	a, b := two()
	n, s := named()
	fmt.Println(a, b, n, s)
	fmt.Println(sum(three()))
	fmt.Println(pair(two()), pair(named()))
	fmt.Println(vari(), vari(1), vari(three()))
	p, err := errf(true)
	fmt.Println(p.X, err)
	p, err = errf(false)
	fmt.Println(p.X, err)
	_, err = errf(true)
	fmt.Println(err)
	fmt.Println(iface().String())
	var st Str = iface()
	var e interface{} = eface()
	fmt.Println(st.String(), e.(P).X)
	st, err = ifaceNamed()
	fmt.Println(st.String(), err)
	e = fib(5)
	fmt.Println(e)
	for l := list(3); l != nil; l = l.Next {
		fmt.Print(l.Val, " ")
	}
	fmt.Println()
	fmt.Println(fib(15), fibn(15))
	f := mk()
	x, y := f()
	x, y = f()
	fmt.Println(x, y)
	fmt.Println(deferred())
	fmt.Println(fw())
	if boolf(2) && !boolf(1) {
		fmt.Println("bool ok")
	}
	for i := 0; boolf(3 - i); i++ {
		fmt.Print(i)
	}
	fmt.Println()
	fmt.Println(gen(3))
	gs, ok := gen("s")
	fmt.Println(gs, ok)
	m := M{func(i int) (int, error) { return i * 2, nil }}
	v, err := m.f(4)
	fmt.Println(v, err)
	xs := []int{3, 1, 2}
	sort.Slice(xs, func(i, j int) bool { return xs[i] < xs[j] })
	fmt.Println(xs, strings.Map(func(r rune) rune { return r + 1 }, "abc"))
	ch := make(chan int, 2)
	go func() { ch <- fib(10) }()
	go fibn(3)
	fmt.Println(<-ch)
	arr := [2]P{}
	arr[0], err = errf(true)
	fmt.Println(arr[0].X, arr[1].X)
	var pp *P = new(P)
	*pp, err = errf(true)
	pp.X, pp.Y = named2()
	fmt.Println(*pp)
	switch q, err := errf(true); {
	case err == nil:
		fmt.Println("switch", q.X)
	}
	defer fmt.Println(named())
	defer func() { fmt.Println(fw()) }()
}

func named2() (a, b int) { a, b = 11, 12; return }
