package main

import "fmt"

type P struct{ X, Y int }

func f(p *P) (r P) {
	r.X = 5
	r.Y = p.X
	return
}

func main() {
	g := P{1, 2}
	g = f(&g)
	fmt.Println(g)
}
