package main

import (
	"fmt"
	"os"
	"strconv"
	"sync"
)

type Tree struct {
	L, R *Tree
	V    int
	Kids []Tree
	F    func(*Tree) Tree
}

func leaf(v int) (t Tree) { t.V = v; return }

func build(d int) (t *Tree) {
	if d == 0 {
		return nil
	}
	t = &Tree{V: d}
	t.L, t.R = build(d-1), build(d-1)
	t.Kids = append(t.Kids, leaf(d))
	return
}

func (t *Tree) sum() (s int) {
	if t == nil {
		return
	}
	s = t.V + t.L.sum() + t.R.sum()
	return
}

type Shape interface{ Area() float64 }
type Sq struct{ s float64 }

func (s Sq) Area() float64 { return s.s * s.s }

func mkShape() (s Shape, err error) { s = Sq{2}; return }
func mkAny() (v interface{})        { v = 42; return }
func mkErr() (err error)            { err = os.ErrNotExist; return }
func mkFn() (f func(int) int)       { f = func(i int) int { return i + 1 }; return }
func mkChan() (c chan int)          { c = make(chan int, 1); c <- 3; return }
func mkMap() (m map[string][]int)   { m = map[string][]int{"a": {1}}; return }
func atoi(s string) (n int, err error) {
	n, err = strconv.Atoi(s)
	return
}
func atoi2(s string) (int, error) { return strconv.Atoi(s) }
func vals() (int8, uint16, float32, complex128, string, bool, rune, byte) {
	return -1, 2, 1.5, 2i, "s", true, 'r', 'b'
}

type W struct {
	mu sync.Mutex
	n  int
}

func (w *W) inc() (n int) {
	w.mu.Lock()
	defer w.mu.Unlock()
	w.n++
	n = w.n
	return
}

func main() {
	t := build(3)
	fmt.Println(t.sum(), t.Kids[0].V)
	var s Shape
	var err error
	s, err = mkShape()
	fmt.Println(s.Area(), err)
	var v interface{} = mkAny()
	fmt.Println(v)
	v = mkErr()
	fmt.Println(v)
	err = mkErr()
	fmt.Println(err == os.ErrNotExist)
	fmt.Println(mkFn()(1), <-mkChan(), mkMap()["a"])
	fmt.Println(atoi("12"))
	n, err := atoi2("x")
	fmt.Println(n, err != nil)
	fmt.Println(vals())
	a, b, c, d, e, f, g, h := vals()
	fmt.Println(a, b, c, d, e, f, g, h)
	w := &W{}
	var wg sync.WaitGroup
	for i := 0; i < 20; i++ {
		wg.Add(1)
		go func() { defer wg.Done(); w.inc() }()
	}
	wg.Wait()
	fmt.Println(w.inc())
	var arr [3]int
	for i := range arr {
		arr[i], _ = atoi(strconv.Itoa(i * 2))
	}
	fmt.Println(arr)
	type pair struct{ a, b int }
	ps := []pair{}
	mk := func(i int) (p pair) { p.a, p.b = i, i*i; return }
	for i := 0; i < 3; i++ {
		ps = append(ps, mk(i))
	}
	fmt.Println(ps)
	x := mk(2)
	px := &x
	x = mk(3)
	fmt.Println(*px)
	var keep []*pair
	for i := 0; i < 3; i++ {
		p := mk(i)
		keep = append(keep, &p)
	}
	fmt.Println(*keep[0], *keep[1], *keep[2])
}
