package main

import (
	"errors"
	"fmt"
)

type P struct{ X, Y int }

type Big struct {
	A [4]int
	S []int
	M map[string]int
}

func f(p *P) (r P) {
	r.X = 5
	r.Y = p.X
	return
}

func f2(p *P) (r P, err error) {
	r.X = 7
	r.Y = p.X
	if p.Y == 0 {
		err = errors.New("zero")
	}
	return
}

func arr(p *[3]int) (r [3]int) {
	r[0] = 9
	r[1] = p[0]
	return r
}

func inc(p *int) (r int) {
	r = 100
	r += *p
	return
}

func big(b *Big) (r Big) {
	r.A[0] = 1
	r.A[1] = b.A[0]
	r.S = append(r.S, len(b.S))
	return
}

type T struct{ v P }

func (t *T) upd() (r P) {
	r.X = 50
	r.Y = t.v.X
	return
}

var G = P{1, 2}

func glob() (r P) {
	r.X = 5
	r.Y = G.X
	return
}

func rec(n int, p *int) (r int) {
	r = n
	if n > 0 {
		r = rec(n-1, p) + *p
	}
	return
}

func esc() (r P, p *P) {
	r = P{1, 1}
	p = &r
	return
}

func closure() (r int, get func() int) {
	r = 1
	get = func() int { return r }
	return
}

func main() {
	g := P{1, 2}
	g = f(&g)
	fmt.Println(g)

	h := P{1, 2}
	var err error
	h, err = f2(&h)
	fmt.Println(h, err)

	a := [3]int{1, 2, 3}
	a = arr(&a)
	fmt.Println(a)

	i := 1
	i = inc(&i)
	fmt.Println(i)

	b := Big{A: [4]int{4, 4, 4, 4}, S: []int{1, 2}}
	b = big(&b)
	fmt.Println(b)

	t := &T{P{1, 2}}
	t.v = t.upd()
	fmt.Println(t.v)

	G = glob()
	fmt.Println(G)

	s := []P{{1, 2}, {3, 4}}
	s[0] = f(&s[0])
	fmt.Println(s)

	m := map[string]P{"k": {1, 2}}
	k := m["k"]
	m["k"] = f(&k)
	fmt.Println(m, k)

	x := 2
	x = rec(3, &x)
	fmt.Println(x)

	r1, p1 := esc()
	p1.X = 9
	fmt.Println(r1, *p1)
	r1, p1 = esc()
	p1.X = 9
	fmt.Println(r1, *p1)

	c, get := closure()
	c = 5
	fmt.Println(c, get())
	c, get = closure()
	c = 5
	fmt.Println(c, get())

	func() {
		w := P{1, 2}
		func() {
			w = f(&w)
		}()
		fmt.Println(w)
	}()
}
