package main

import "fmt"

func main() {
	var pn *[3]int
	fmt.Println(len(pn), cap(pn))
}
