package main

import "fmt"

func main() {
	s := make([]int, 2, 10)
	fmt.Println(len(s), cap(s))
	var ns []int
	fmt.Println(len(ns), cap(ns))
	m := map[string]int{"a": 1}
	var nm map[int]int
	fmt.Println(len(m), len(nm))
	c := make(chan int, 4)
	c <- 1
	var nc chan int
	fmt.Println(len(c), cap(c), len(nc), cap(nc))
	str := "héllo"
	fmt.Println(len(str), len("abc"))
	a := [3]int{}
	fmt.Println(len(a), cap(a))
	ps := &s
	fmt.Println(len(*ps), cap(*ps))
	var i interface{} = len(s)
	fmt.Println(i)
	type S struct{ b []byte }
	x := &S{b: []byte("ab")}
	fmt.Println(len(x.b), cap(x.b) >= 2)
	var e []interface{}
	e = append(e, 1, "a")
	fmt.Println(len(e))
	var vs = []fmt.Stringer{}
	fmt.Println(len(vs))
}
