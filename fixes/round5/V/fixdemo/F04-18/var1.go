package main

import "fmt"

type P struct{ X, Y int }

type T struct {
	pa *[5]P
}

func get() *[2]string { fmt.Println("get"); return nil }

var gp *[7]float64

func main() {
	var pn *[3]int
	fmt.Println(len(pn), cap(pn))
	a := [4]int{1, 2, 3, 4}
	pa := &a
	fmt.Println(len(pa), cap(pa))
	var t T
	fmt.Println(len(t.pa), cap(t.pa))
	fmt.Println(len(get()), cap(get()))
	fmt.Println(len(gp), cap(gp))
	var i interface{} = len(pn)
	var j interface{} = cap(pn)
	fmt.Println(i, j)
	n := len(pn) + cap(t.pa)
	fmt.Println(n)
	pp := &pn
	fmt.Println(len(*pp), cap(*pp))
	var arr [len(gp)]int
	fmt.Println(len(arr))
	const c = len(pn)
	fmt.Println(c)
	func(p *[3]int) { fmt.Println(len(p), cap(p)) }(nil)
	for i := 0; i < len(pn); i++ {
		fmt.Println(i)
	}
	defer func() {
		fmt.Println(recover() != nil)
	}()
	fmt.Println(pn[1])
}
