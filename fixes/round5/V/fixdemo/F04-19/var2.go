package main

import "fmt"

type P struct{ X, Y int }

func g() int { return 9 }

func gp(p P) P { return P{p.Y, p.X} }

func e1() (a, b int) {
	a, b = 1, 2
	return b + 1, a
}

func e2() (a, b int) {
	a, b = 1, 2
	return g(), a
}

func e3() (a, b int) {
	a, b = 1, 2
	return -b, a
}

func e4() (a, b int) {
	a, b = 1, 2
	return b * 2, a + 1
}

func e5() (a, b int) {
	a, b = 1, 2
	return b, a + 1
}

func e6() (a, b int) {
	a, b = 1, 2
	return +a, a
}

func e7() (a, b bool) {
	a, b = true, false
	return !a, a
}

func e8() (a int, p *int) {
	a = 3
	return a + 1, &a
}

func e9() (x, y P) {
	x, y = P{1, 2}, P{3, 4}
	return gp(y), gp(x)
}

func e10() (a, b, c int) {
	a, b, c = 1, 2, 3
	return c - a, a + b, b * a
}

func e11() (a, b int) {
	a, b = 1, 2
	return a + b, a - b
}

func e12() (s string, n int) {
	s, n = "abc", 1
	return s + "d", len(s) + n
}

func e13() (a, b int) {
	a, b = 1, 2
	return int(a), a + b
}

func e14() (a, b float64) {
	a, b = 1, 2
	return float64(int(b)), a
}

func e15() (a int, b int) {
	a, b = 1, 2
	return g() + b, g() * a
}

func main() {
	fmt.Println(e1())
	fmt.Println(e2())
	fmt.Println(e3())
	fmt.Println(e4())
	fmt.Println(e5())
	fmt.Println(e6())
	fmt.Println(e7())
	a, p := e8()
	fmt.Println(a, *p)
	fmt.Println(e9())
	fmt.Println(e10())
	fmt.Println(e11())
	fmt.Println(e12())
	fmt.Println(e13())
	fmt.Println(e14())
	fmt.Println(e15())
}
