package main

import (
	"errors"
	"fmt"
)

type P struct{ X, Y int }

type S interface{ Str() string }

type A string

func (a A) Str() string { return string(a) }

func sw() (a, b int) {
	a, b = 1, 2
	return b, a
}

func rot() (x, y, z P) {
	x, y, z = P{1, 1}, P{2, 2}, P{3, 3}
	return z, x, y
}

func rot4() (a, b, c, d string) {
	a, b, c, d = "a", "b", "c", "d"
	return d, c, b, a
}

func mix() (a int, b int, c int) {
	a, b, c = 1, 2, 3
	return a, a, b
}

func expr() (a, b int) {
	a, b = 1, 2
	return b + 1, a
}

func paren() (a, b int) {
	a, b = 1, 2
	return (b), (a)
}

func iface() (a, b interface{}) {
	a, b = 1, "s"
	return b, a
}

func iface2() (a, b S) {
	a = A("a")
	b = A("b")
	return b, a
}

func errs() (e1, e2 error) {
	e1, e2 = errors.New("1"), errors.New("2")
	return e2, e1
}

func funcs() (f, g func() int) {
	f, g = func() int { return 1 }, func() int { return 2 }
	return g, f
}

func slices() (a, b []int, m map[string]int) {
	a, b = []int{1}, []int{2, 2}
	return b, a, m
}

func withDefer() (a, b int) {
	defer func() { a, b = a*10, b*10 }()
	a, b = 1, 2
	return b, a
}

func params(a, b int) (c, d int) {
	c, d = a, b
	return d, c
}

func ptrs() (a, b *int) {
	x, y := 1, 2
	a, b = &x, &y
	return b, a
}

func rec(n int) (a, b int) {
	if n == 0 {
		return 0, 1
	}
	a, b = rec(n - 1)
	return b, a + b
}

type T struct{ v int }

func (t T) meth() (a, b int) {
	a, b = t.v, t.v+1
	return b, a
}

func clos() (int, int) {
	f := func() (a, b int) {
		a, b = 5, 6
		return b, a
	}
	return f()
}

func conv() (a int, b float64) {
	a, b = 1, 2.5
	return int(b), float64(a)
}

func main() {
	fmt.Println(sw())
	fmt.Println(rot())
	fmt.Println(rot4())
	fmt.Println(mix())
	fmt.Println(expr())
	fmt.Println(paren())
	fmt.Println(iface())
	a, b := iface2()
	fmt.Println(a.Str(), b.Str())
	fmt.Println(errs())
	f, g := funcs()
	fmt.Println(f(), g())
	fmt.Println(slices())
	fmt.Println(withDefer())
	fmt.Println(params(3, 4))
	p, q := ptrs()
	fmt.Println(*p, *q)
	fmt.Println(rec(10))
	fmt.Println(T{3}.meth())
	fmt.Println(clos())
	fmt.Println(conv())
}
