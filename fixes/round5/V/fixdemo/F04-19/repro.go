package main

import "fmt"

type P struct{ X, Y int }

func sw() (a, b int) {
	a, b = 1, 2
	return b, a
}

func main() {
	fmt.Println(sw())
}
