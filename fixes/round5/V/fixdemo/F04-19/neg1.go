package main

import (
	"errors"
	"fmt"
)

type P struct{ X, Y int }

var ga, gb = 10, 20

func same() (a, b int) {
	a, b = 1, 2
	return a, b
}

func globals() (a, b int) {
	return gb, ga
}

func locals() (int, int) {
	a, b := 1, 2
	return b, a
}

func unnamed(x, y int) (int, int) { return y, x }

func consts() (a, b int, c string) { return 1, 2, "c" }

func one() (a int) {
	a = 4
	return a
}

func oneExpr() (a int) {
	a = 4
	return a + 1
}

func bare() (a, b int) {
	a, b = 7, 8
	return
}

func call2() (a, b int) { return same() }

func nilRet() (p *P, err error) {
	return nil, errors.New("e")
}

func outer() (a, b int) {
	a, b = 1, 2
	f := func() (int, int) { return b, a }
	return f()
}

func multi(x int) (r int, ok bool) {
	if x > 0 {
		return x, true
	}
	return
}

func three() (a, b, c int) {
	x, y, z := 1, 2, 3
	return z, y, x
}

func ifaceRet() (interface{}, error) {
	return P{1, 2}, nil
}

func fact(n int) (r int) {
	if n <= 1 {
		return 1
	}
	return n * fact(n-1)
}

func main() {
	fmt.Println(same())
	fmt.Println(globals())
	fmt.Println(locals())
	fmt.Println(unnamed(1, 2))
	fmt.Println(consts())
	fmt.Println(one(), oneExpr())
	fmt.Println(bare())
	fmt.Println(call2())
	fmt.Println(nilRet())
	fmt.Println(outer())
	fmt.Println(multi(1))
	fmt.Println(multi(-1))
	fmt.Println(three())
	fmt.Println(ifaceRet())
	fmt.Println(fact(10))
}
