package main

var c0 = uint64(-1 << len(string("ab")))

func main() { println(c0) }
