package main

const s string = "ab"

func f(a [2]int) int { return len(a) }

func main() {
	println(f([len(s)]int{1, 2}), f([len(string("xy"))]int{}))
	var m = map[int]string{len(s + "c"): "x", len(string("abcd")): "y"}
	println(m[3], m[4])
	for i := 0; i < len(string("ab")+s); i++ {
		print(i)
	}
	println()
}
