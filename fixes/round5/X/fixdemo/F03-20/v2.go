package main

type S string

const s S = "abc"

func main() {
	var a [len(s + "de")]int
	var b [len(S("xy")) * 2]int
	println(len(a), len(b))
	var i8 int8 = 1 << len(string("abcdefgh"))
	println(i8)
}
