package main

import "fmt"

type S string

const s string = "ab"
const t S = "héé"

func main() {
	var a [len(s + "x")]int
	var b [len((s)) + len(string("q")+s)]bool
	const k = len(t + "z")
	var f float32 = 1 << len(string("abc"))
	x := 1.5 * float64(len(S("ab")+t))
	fmt.Println(len(a), len(b), k, f, x, len(string(t))+len(S(s)), 1<<len(s)>>1)
	fmt.Printf("%T %T\n", len(s+"x"), 1<<len(s+"y"))
}
