package main

const s string = "ab"

func main() {
	x := uint8(100 * len(s+"x"))
	println(x)
}
