package main

func main() {
	println(uint(len(string("ab")) - 3))
}
