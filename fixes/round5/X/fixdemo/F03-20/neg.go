package main

import (
	"fmt"
	"go/build"
	"os"
	"runtime"
)

var g = "abc"
var h string = "de"

type S string

func f() string { return "xyz" }

func main() {
	g += "!"
	h = h + h
	fmt.Println(len(g), len(h), len(g+"x"), len(string(g)), len(S(h)), len((g)))
	l := "loc"
	l = l[1:]
	fmt.Println(len(l), len(f()), len(f()+"a"), len("abc"[1:]), len(string([]byte{1, 2})), len(string(rune(65))))
	var sh uint = 3
	fmt.Println(1<<len(g), 1<<sh<<len(g))
	fmt.Println(len(runtime.GOOS) > 0, len(build.ToolDir) > 0, len(os.Args[0]) > 0, len(os.DevNull))
	os.Args[0] = "ab"
	fmt.Println(len(os.Args[0]))
	var arr [3]int
	var p = &arr
	var ch = make(chan int, 4)
	fmt.Println(len(arr), len(p), len(ch), cap(ch), len([]int{1}), len(map[int]int{}))
	const c = len("abc") + len(arr)
	fmt.Println(c)
	var e interface{} = len(string("ab"))
	fmt.Printf("%T %v\n", e, e)
	var u8 uint8 = uint8(len(g)) << len(string("ab"))
	fmt.Println(u8)
}
