package main

func f(s string) string { return s }

func main() {
	println(f(string('a'+1)), f("a"+"b"))
	println(f('a' + 1))
}
