package main

func main() {
	var s string
	s = 'a' + 1
	x := 2
	s = "a" + x
	println(s)
}
