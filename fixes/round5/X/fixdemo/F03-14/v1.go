package main

import "fmt"

type S string

const (
	a = string(65 + 1)
	b = S('x' + 1 + 1)
	c = string(('a' + 2))
	d = string('a'+3) + "z"
	e = "q" + string(1+'a')
	f = len(string('a'+1) + "xx")
	g = string(rune(60 + 6))
	h S = S(60 + 7) + "s"
)

func main() {
	fmt.Println(a, b, c, d, e, f, g, h)
	const l = string('l' + 0)
	fmt.Println(l)
}
