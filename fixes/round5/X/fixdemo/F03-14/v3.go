package main

var s string = 'a' + 1

func main() { println(s) }
