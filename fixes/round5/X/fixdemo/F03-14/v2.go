package main

import "fmt"

const (
	x = float64(0.5 + 0.25)
	y = string("abc" + "a")
	z = int8(1+2) * 3
	w = complex(1+1, 2*2)
	u = uint8('a'+1) + 1
)

func main() { fmt.Println(x, y, z, w, u) }
