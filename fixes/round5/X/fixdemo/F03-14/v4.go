package main

const n int = "a" + "b"

func main() { println(n) }
