package main

import "fmt"

type S string

const p = "a" + "b"
const q S = "a" + "b"
const r string = p + "c"
const i = 'a' + 1
const j rune = 'a' + 1
const k byte = 'a' + 1
const m float64 = 1 + 2

var vs string = "x" + "y"
var vq = q + "!"
var vi int32 = 'a' + 'b'
var vf = 1 + 2.5

func main() {
	fmt.Println(p, q, r, i, j, k, m, vs, vq, vi, vf)
	s := "l"
	s = s + "m" + string('a'+1)
	s += "n" + "o"
	var e interface{} = "a" + "b"
	var n interface{} = 'a' + 1
	fmt.Println(s, e, n)
	fmt.Printf("%T %T %T %T\n", i, j, k, n)
}
