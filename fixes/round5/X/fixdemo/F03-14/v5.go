package main

const s string = "a" + 1

func main() { println(s) }
