package main

func main() {
	var s string = "a" + 1
	println(s)
}
