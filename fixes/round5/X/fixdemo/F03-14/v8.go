package main

func main() {
	var s string
	s = 1 + "a"
	println(s)
}
