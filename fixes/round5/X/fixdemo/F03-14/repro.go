package main

const c0 = string('a' + 1)

var v0 = string('a' + 1)

func main() { println(c0, v0) }
