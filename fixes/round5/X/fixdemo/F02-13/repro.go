package main

import "fmt"

type Di8 int8

func main() {
	var a, b Di8 = 127, 1
	var e interface{}
	e = a
	fmt.Printf("%T %v\n", e, e)
	e = a + b
	fmt.Printf("%T %v\n", e, e)
	_, ok := e.(int8)
	_, ok2 := e.(Di8)
	fmt.Println(ok, ok2)
	e = Di8(3)
	fmt.Printf("%T %v\n", e, e)
	e = -a
	fmt.Printf("%T %v\n", e, e)
	var f interface{} = a * 2
	fmt.Printf("%T %v\n", f, f)
	fmt.Printf("%T\n", a-b)
}
