package main

import "fmt"

type F float32
type C complex64

const (
	a F = 0.1
	b F = 0.3
	c C = 0.1 + 0.7i
	d C = 3 - 0.3i
)

const x float64 = 0.1
const y float64 = 0.2
const t float32 = 16777216.0
const u float32 = 1.0000001

func main() {
	fmt.Println(a+b, a*b, a/b, a-b, -a, +a)
	fmt.Println(c+d, c*d, c/d, c-d, -c, +c)
	fmt.Println(x+y, x*y, x/y, x-y, x+y == 0.3, float32(x)+float32(y))
	fmt.Println(t+u, t*u, t/u, t-u)
	fmt.Println(x*3, 3*x, 1/x, x/3, 2-x, float32(1)/3)
	var arr [int(x*20 + y*5)]int
	fmt.Println(len(arr))
	fmt.Printf("%T\n", x+1)
}
