package main

const a float64 = 1

const b = a / (a - 1)

func main() { println(b) }
