package main

import (
	"fmt"
	"math"
)

const big float64 = 1e308
const small float64 = 1e-308
const f32 float32 = 3.4e38

func f(x float64) float64 { return x }

func main() {
	fmt.Println(big/10*10, small*small, small/big, f(small*1e-20))
	fmt.Println(f32/3*2, -f32, f32-f32, -(f32 - f32))
	fmt.Println(math.Signbit(float64(f32-f32)), math.Signbit(f(-(big - big))))
	var s = []float64{-small * 0, 0 * -big, big - big}
	for _, v := range s {
		fmt.Println(v, math.Signbit(v))
	}
	const third = float32(1) / 3
	fmt.Println(third, third*3 == 1, float64(third))
	const cc = complex64(1+1i) / (3 - 2i)
	fmt.Println(cc)
}
