package main

const a float32 = 3.4e38

const b = a * 10

func main() { println(b) }
