package main

import (
	"fmt"
	"math"
)

const k float64 = 2.5
const ci complex128 = 2i

func main() {
	// Run-time arithmetic keeps IEEE semantics.
	z := 0.0
	n := -z
	fmt.Println(n, math.Signbit(n), math.Signbit(z/-1), math.Signbit(z*-1))
	x := 1.5
	fmt.Println(-x, k*x, x/k, k-x, -k*x, x*-k)
	var c complex128 = 0
	nc := -c
	fmt.Println(nc, math.Signbit(real(nc)), math.Signbit(imag(nc)))
	fmt.Println(ci*ci, ci*c, -ci, ci/2, 1/ci)
	f := float32(0.1)
	fmt.Println(f*f, f/3, -f, f+0.2)
	// Untyped constants.
	fmt.Println(1.0/3.0, -0.0, 1/3.0*3, 1e100*1e100*1e-150, -(2 + 3i), (1+2i)*(3+4i))
	const big = 1 << 100
	fmt.Println(big/1e20, float32(big), float64(big)*2)
	fmt.Println(math.MaxFloat64/2, -math.MaxFloat32, math.Pi*k, math.SmallestNonzeroFloat64*1)
	var i8 int8 = 3
	fmt.Println(-i8, k+float64(i8), uint8(200)+55, ^uint8(1), -7/2, -7%3)
	fmt.Println("a"+"b", 'a'+1, 7.0/2, 7/2)
}
