package main

import (
	"fmt"
	"math"
)

const z float64 = 0.0
const z32 float32 = 0.0
const m1 float32 = -1.0
const cz complex64 = 0
const c3 complex128 = 3 + 0i
const ca complex128 = 1 + 2i
const cb complex128 = -1.5 - 0.5i
const c0 complex128 = 0

func sb(f float64) bool { return math.Signbit(f) }

func show(c complex128) { fmt.Println(c, sb(real(c)), sb(imag(c))) }

func main() {
	a := -z
	fmt.Println(a, sb(a))
	b := z32 / m1
	fmt.Println(b, sb(float64(b)))
	fmt.Println(sb(float64(z32*m1)), sb(z*-1.0), sb(-(z)))
	fmt.Println(-cz, sb(float64(real(-cz))), sb(float64(imag(-cz))))
	show(-c3)
	show(-(3 + 0i))
	show(c0 * cb)
	show(ca / cb)
	show(ca * cb)
	show(cb / ca)
	var e interface{} = -z
	fmt.Println(e, sb(e.(float64)))
}
