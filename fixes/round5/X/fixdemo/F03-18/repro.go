package main

var c0 int8 = int16(1) + 2

func main() { println(c0) }
