package main

func main() {
	var f float64 = -int(3)
	var g float32 = (float64(1) + 2) * 3
	println(f, g)
}
