package main

func main() {
	var a, b int16 = 1, 2
	var x int8 = a + b
	println(x)
}
