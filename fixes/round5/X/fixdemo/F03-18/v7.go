package main

func main() {
	var s string = 1 + int(2)
	println(s)
}
