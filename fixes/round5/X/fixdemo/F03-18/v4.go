package main

func main() {
	var x uint8
	x = int16(3) * 2
	println(x)
}
