package main

const k uint = 2

func main() {
	var x int = k - 1
	println(x)
}
