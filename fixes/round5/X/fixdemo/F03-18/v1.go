package main

const c0 float32 = 1 / len("abc")

func main() { println(c0) }
