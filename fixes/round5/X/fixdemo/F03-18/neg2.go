package main

import (
	"fmt"
	"os"
	"time"
)

type T uint8
type W time.Weekday

const (
	A T = iota + 1
	B
	C T = 1<<iota | A
	D   = C + 1
)

const (
	KB float64 = 1 << (10 * (iota + 1))
	MB
)

const timeout time.Duration = 5 * time.Second
const half = timeout / 2
const mode os.FileMode = 0o644 | os.ModeDir
const wd W = W(time.Monday) + 1 - 2
const mask uint32 = 1<<31 - 1 + uint32(1)
const fl float32 = float32(1) / 3 * 3
const str string = "a" + string(rune(66)) + "c"

type P struct {
	x int32
	f float32
}

func ret(a int8) int8 { return a*2 + 1 }

func fl64(a int) float64 { return float64(a) / 2 }

func main() {
	fmt.Println(A, B, C, D, KB, MB, timeout, half, mode, int(wd), mask, fl, str)
	var i32 int32 = 5
	p := P{x: i32 * 2, f: float32(i32) / 2}
	q := &P{i32 + 1, 2 * float32(i32)}
	fmt.Println(p, *q, ret(3), fl64(3))
	var arr [B + 1]int
	var sl []float64 = []float64{fl64(1) + 1, 2 * fl64(2)}
	var deadline time.Time = time.Unix(0, 0).Add(timeout * 2)
	fmt.Println(len(arr), sl, deadline.UTC().Second())
	var u uint64 = uint64(i32)<<3 + 1
	var v int = len(sl)*2 - 1
	var w float64 = float64(v) - 0.5
	var ok bool = v+1 == 4
	fmt.Println(u, v, w, ok)
	for j := T(0); j < B; j++ {
		var k T = j*2 + A
		fmt.Print(k, " ")
	}
	fmt.Println()
	var ch = make(chan int16, 1)
	ch <- int16(i32) + 1
	var got int16 = <-ch + 1
	fmt.Println(got)
}
