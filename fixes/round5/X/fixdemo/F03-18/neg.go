package main

import (
	"fmt"
	"math"
	"strings"
	"time"
)

type T int
type F float64
type S string

const k T = 2
const kf F = 1.5

var g1 int8 = int8(1) + 2
var g2 float32 = 1 / float32(len("abc"))
var g3 float64 = 2.5 + float64(2.5)
var g4 T = k*3 + 1
var g5 time.Duration = 2*time.Second + time.Millisecond
var g6 S = S("a") + "b"
var g7 float64 = 3 / 2
var g8 float64 = 3 / 2.0
var g9 uint8 = 1<<7 | uint8(1)
var g10 F = kf / 2
var g11 = math.MaxInt8 + 1
var g12 int64 = math.MaxInt32 + 1
var g13 float64 = math.Pi * 2

func main() {
	fmt.Println(g1, g2, g3, g4, g5, g6, g7, g8, g9, g10, g11, g12, g13)
	var a, b int16 = 1, 2
	var x int16 = a + b
	var y int16 = a + 2
	var z int16 = 2 * b
	var s uint = 3
	var sh int64 = 1 << s
	var sh2 int64 = 1<<s + int64(a)
	var sh3 float64 = float64(int(1)<<s) * 1.5
	fmt.Println(x, y, z, sh, sh2, sh3)
	var d time.Duration = time.Duration(a) * time.Second
	var e time.Duration = time.Since(time.Now()) * 0
	var i interface{} = a + b
	var n fmt.Stringer = d
	fmt.Println(d, e, i, n)
	var str string = strings.ToUpper("a") + "b"
	var t T = T(a) + k
	var f F = F(t) * kf
	var by byte = "abc"[1] + 1
	var r rune = 'a' + rune(by)
	fmt.Println(str, t, f, by, r)
	var c complex128 = complex(1, 2) * 2
	var c2 complex64 = complex64(c) + 1i
	fmt.Println(c, c2)
	var p *int
	var ok bool = p == nil && a+b > 2
	var m = map[string]int16{"a": a + 1}
	var arr [4]int64 = [4]int64{int64(a) + 1, 2 + int64(b)}
	fmt.Println(ok, m, arr)
	x = a & b
	x = a | 1
	x ^= 2
	y = x &^ a
	var u8 uint8 = 200
	var w uint8 = u8 + 100
	var q int = int(u8) + 100
	fmt.Println(x, y, w, q)
	func(v int64, ff float32) { fmt.Println(v, ff) }(int64(a)+1, float32(b)/3)
}
