package main

var c0 int16 = 2.5 + float64(2.5)

func main() { println(c0) }
