package main

import "fmt"

const a = string(65)
const r = string('x')

var v = string(0x10FFFF)
var w = string(0x110000)
var s = string(0xD800)

func main() {
	fmt.Printf("%q %q %q %q %q\n", a, r, v, w, s)
	fmt.Printf("%q %q\n", string(rune(66)), string(int64(4294967361)))
	fmt.Printf("%q\n", string(2147483647))
	fmt.Printf("%q\n", string(-2147483648))
	fmt.Printf("%q\n", string(0x4e16)+string(0x754c))
	var i int64 = 4294967361
	fmt.Printf("%q\n", string(rune(i)))
}
