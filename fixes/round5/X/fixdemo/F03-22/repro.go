package main

import "fmt"

var c0 = string(4294967296)
var c1 = string(4294967361)

const c2 = string(281474976710657)

func main() {
	fmt.Printf("%q %q %q\n", c0, c1, c2)
	fmt.Printf("%q\n", string(4294967362))
	x := string(-4294967231)
	fmt.Printf("%q\n", x)
	fmt.Printf("%q %q\n", string(1<<40+65), string(-1))
	const big = 1 << 70
	fmt.Printf("%q\n", string(big))
	type S string
	fmt.Printf("%q\n", S(4294967361))
	fmt.Printf("%q\n", []string{string(8589934657)})
}
