package main

const c0 = true << 1

func main() { println(c0) }
