package main

func main() {
	var s uint = 2
	println(true << s)
}
