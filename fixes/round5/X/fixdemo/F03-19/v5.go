package main

func main() {
	println((1 < 2) << 1)
}
