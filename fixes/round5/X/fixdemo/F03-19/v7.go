package main

func main() {
	x := 3
	x <<= true
	println(1 << true, x)
}
