package main

const t = true

func main() {
	println(t << 1)
}
