package main

func main() {
	x := 1 + (true << 3)
	println(x)
}
