package main

var c0 = false >> 2

func main() { println(c0) }
