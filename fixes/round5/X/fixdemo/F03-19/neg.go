package main

import "fmt"

const a = 1 << 3
const b = 1.0 << 3
const c = 'a' << 1

var s uint = 2
var d = 1 << s
var e int64 = 1 << s
var f = 8 >> float32(2)

func main() {
	fmt.Println(a, b, c, d, e, f)
	var u8 uint8 = 1
	fmt.Println(u8<<7, u8<<s)
	t := true && 1<<s == 4
	fmt.Println(t)
	var x interface{} = 1 << 3
	fmt.Printf("%T %v\n", x, x)
}
