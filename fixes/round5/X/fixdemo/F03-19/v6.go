package main

func main() {
	println("a" << 1)
}
