package main

import "fmt"

type Pt struct{ x, y int }

func (p Pt) String() string { return fmt.Sprintf("(%d,%d)", p.x, p.y) }

func id(x interface{}) interface{} { return x }

func main() {
	r := id(Pt{1, 2})
	fmt.Println(r == Pt{1, 2}, r == interface{}(Pt{1, 2}))
	fmt.Printf("%v %T\n", r, r)
	func() {
		defer func() {
			r := recover()
			fmt.Println(r == Pt{1, 2}, r == interface{}(Pt{1, 2}))
		}()
		panic(Pt{1, 2})
	}()
}
