package main

import "fmt"

type Pt struct{ x, y int }

func (p Pt) String() string { return fmt.Sprintf("(%d,%d)", p.x, p.y) }

func main() {
	var r interface{} = Pt{1, 2}
	fmt.Println(r == Pt{1, 2}, r == interface{}(Pt{1, 2}))
}
