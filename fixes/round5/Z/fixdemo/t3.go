package main

import "fmt"

type MyErr struct{ code int }

func (e *MyErr) Error() string { return fmt.Sprint("myerr ", e.code) }

var ErrX = &MyErr{1}
var ErrY error = &MyErr{2}

func id(x interface{}) interface{} { return x }

func main() {
	r := id(ErrX)
	fmt.Println(r == ErrX, r == ErrY)
	func() {
		defer func() {
			r := recover()
			fmt.Println(r == ErrX, r == ErrY, r != nil)
		}()
		panic(ErrX)
	}()
	func() {
		defer func() {
			r := recover()
			fmt.Println(r == ErrX, r == ErrY, r != nil)
		}()
		panic(ErrY)
	}()
}
