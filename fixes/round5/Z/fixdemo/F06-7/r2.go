package main

import "fmt"

type S struct{ h func() }

func f() (err error) {
	s := S{h: func() {
		if r := recover(); r != nil {
			err = fmt.Errorf("caught %v", r)
		}
	}}
	defer s.h()
	panic("p1")
}

func g() {
	hs := []func(){func() { fmt.Println("slice", recover()) }}
	defer hs[0]()
	panic("p2")
}

func m() {
	hm := map[string]func(){"a": func() { fmt.Println("map", recover()) }}
	defer hm["a"]()
	panic("p3")
}

func main() {
	fmt.Println(f())
	g()
	m()
	fmt.Println("done")
}
