package main

import "fmt"

func main() {
	h := func() { fmt.Println("recovered", recover()) }
	defer h()
	panic("x")
}
