package main

import (
	"errors"
	"fmt"
)

// negative variations: direct literals, named functions, methods keep working
type T struct{ name string }

func (t *T) rec() { fmt.Println(t.name, recover()) }

func named() { fmt.Println("named", recover()) }

func f1() { defer named(); panic("n") }
func f2() { t := &T{"meth"}; defer t.rec(); panic("m") }
func f3() { defer func() { fmt.Println("lit", recover()) }(); panic(errors.New("e")) }
func f4() {
	h := named
	defer h()
	panic("hv")
}
func f5() {
	t := &T{"mv"}
	h := t.rec
	defer h()
	panic("mval")
}
func f6() (r int) {
	defer func() {
		func() { fmt.Println("nested", recover()) }()
		r = 7
		recover()
	}()
	panic("deep")
}

func main() {
	f1()
	f2()
	f3()
	f4()
	f5()
	fmt.Println(f6())
}
