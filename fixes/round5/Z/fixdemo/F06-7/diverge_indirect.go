package main

import "fmt"

// recover NOT called directly by the deferred function: Go does not recover.
func main() {
	defer func() { fmt.Println("outer", recover()) }()
	h := func() { fmt.Println("indirect", recover()) }
	defer func() { h() }()
	panic("x")
}
