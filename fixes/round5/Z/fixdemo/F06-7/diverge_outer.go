package main

import "fmt"

// held closure defined in an outer function, deferred in an inner one: still not recovered
func main() {
	defer func() { fmt.Println("outer", recover()) }()
	w := func(tag string) { fmt.Println(tag, recover()) }
	func() {
		defer w("tagged")
		panic(42)
	}()
}
