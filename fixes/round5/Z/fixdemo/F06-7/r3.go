package main

import "fmt"

// closure in a loop, each with its own variable; recover in the second only
func run(i int) (res string) {
	var hs []func()
	for j := 0; j < 3; j++ {
		j := j
		hs = append(hs, func() {
			r := recover()
			res += fmt.Sprint("h", j, ":", r, " ")
		})
	}
	for _, h := range hs {
		defer h()
	}
	if i > 0 {
		panic(i)
	}
	return "none "
}

func main() {
	fmt.Println(run(0))
	fmt.Println(run(1))
}
