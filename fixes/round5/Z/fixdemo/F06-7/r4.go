package main

import "fmt"

// nested: closure held in a variable inside a closure value
func main() {
	outer := func() {
		h := func() { fmt.Println("inner recovered", recover()) }
		defer h()
		panic("in")
	}
	outer()
	h2 := func() {
		r := recover()
		fmt.Println("outer recovered", r)
	}
	defer h2()
	defer func() {
		// re-panic in deferred function, the held closure recovers the last one
		panic("second")
	}()
	panic("first")
}
