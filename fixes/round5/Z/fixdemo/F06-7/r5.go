package main

import "fmt"

// No panic: recover returns nil; recover twice: second is nil; a goroutine.
func main() {
	h := func() { fmt.Println("nil?", recover() == nil) }
	h()
	func() {
		defer h()
	}()
	done := make(chan bool)
	go func() {
		defer func() { done <- true }()
		k := func() {
			fmt.Println("first", recover())
			fmt.Println("second", recover())
		}
		defer k()
		panic("g")
	}()
	<-done
	// argument passing to the held closure
	func() {
		w := func(tag string) { fmt.Println(tag, recover()) }
		defer w("tagged")
		panic(42)
	}()
	// the recovered panic is over: a later held closure sees nothing
	func() {
		a := func() { fmt.Println("a", recover()) }
		b := func() { fmt.Println("b", recover()) }
		defer a()
		defer b()
		panic("once")
	}()
}
