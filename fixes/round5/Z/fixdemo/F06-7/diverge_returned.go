package main

import "fmt"

func mk() func() { return func() { fmt.Println("made", recover()) } }

func main() {
	defer func() { fmt.Println("outer", recover()) }()
	defer mk()()
	panic("x")
}
