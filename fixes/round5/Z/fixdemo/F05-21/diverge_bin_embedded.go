package main

import (
	"bytes"
	"fmt"
	"io"
)

type W struct{ bytes.Buffer }

func main() {
	var w io.Writer = &W{}
	_, ok := w.(W)
	fmt.Println(ok)
}
