package main

import (
	"bytes"
	"fmt"
	"io"
	"os"
)

type IP interface{ Put() }

type B struct{ nb int }

func (b *B) Put() { b.nb++ }

type E struct{ IP }      // embedded interface: method in the set of E
type S struct{ *bytes.Buffer }
type N int

func (n N) Put() {}

type L struct {
	a int
	E
}


func main() {
	var i IP = E{&B{}}
	_, ok := i.(E)
	fmt.Println(ok)
	i = L{1, E{&B{}}}
	_, ok = i.(L)
	fmt.Println(ok)
	i = N(3)
	n, ok := i.(N)
	fmt.Println(n, ok)
	var w io.Writer = &bytes.Buffer{}
	_, ok = w.(*bytes.Buffer)
	fmt.Println(ok)
	w = S{&bytes.Buffer{}}
	_, ok = w.(S)
	fmt.Println(ok)
	var e error = &os.PathError{Op: "o", Path: "p", Err: io.EOF}
	pe, ok := e.(*os.PathError)
	fmt.Println(pe.Op, ok)
}
