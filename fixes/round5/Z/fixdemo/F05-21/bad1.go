package main

import "fmt"

type B struct{ nb int }

func (b *B) Put() { b.nb++ }

type C struct {
	nc int
	B
}

type IP interface{ Put() }

func main() {
	v := C{}
	var i IP = &v
	j, ok := i.(C)
	fmt.Println(j, ok)
}
