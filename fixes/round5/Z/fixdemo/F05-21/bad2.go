package main

import "fmt"

type B struct{ nb int }

func (b *B) Put() { b.nb++ }

type C struct {
	nc int
	B
}
type D struct{ C }

type IP interface{ Put() }

func main() {
	var i IP = &D{}
	switch x := i.(type) {
	case D:
		fmt.Println("D", x)
	default:
		fmt.Println("other")
	}
}
