package main

import "fmt"

type B struct{ nb int }

func (b *B) Put() { b.nb++ }
func (b B) Get() int { return b.nb }

type C struct {
	nc int
	B
}
type P struct {
	np int
	*B
}
type D struct{ P }

type IP interface{ Put() }
type IG interface{ Get() int }

func main() {
	var i IP = &C{}
	j, ok := i.(*C)
	fmt.Println(j.nc, ok)
	_, ok = i.(*B)
	fmt.Println(ok)
	i = P{1, &B{}}
	p, ok := i.(P)
	fmt.Println(p.np, ok)
	i = D{P{2, &B{}}}
	d, ok := i.(D)
	fmt.Println(d.np, ok)
	_, ok = i.(*D)
	fmt.Println(ok)
	var g IG = C{}
	c, ok := g.(C)
	fmt.Println(c.nc, ok)
	switch x := g.(type) {
	case C:
		fmt.Println("C", x.nc)
	case *C:
		fmt.Println("*C", x.nc)
	case B:
		fmt.Println("B")
	}
	switch i.(type) {
	case P:
		fmt.Println("P")
	case D:
		fmt.Println("D")
	case *C:
		fmt.Println("*C")
	}
}
