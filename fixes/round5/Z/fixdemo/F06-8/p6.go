package main

import (
	"errors"
	"fmt"
	"os"
	"strconv"
)

type Plain struct{ a, b int }

// negative variations: values without script methods go through unchanged
func try(f func()) {
	defer func() {
		r := recover()
		switch v := r.(type) {
		case nil:
			fmt.Println("nil")
		case string:
			fmt.Println("string", v)
		case int:
			fmt.Println("int", v+1)
		case Plain:
			fmt.Println("plain", v.a+v.b)
		case *Plain:
			fmt.Println("pplain", v.a)
		case []int:
			fmt.Println("slice", len(v))
		case *os.PathError:
			fmt.Println("patherror", v.Op)
		case error:
			fmt.Println("error", v)
		default:
			fmt.Println("other", v)
		}
	}()
	f()
}

var sentinel = errors.New("sentinel")

func main() {
	try(func() {})
	try(func() { panic("s") })
	try(func() { panic(41) })
	try(func() { panic(Plain{1, 2}) })
	try(func() { panic(&Plain{3, 4}) })
	try(func() { panic([]int{1, 2}) })
	try(func() { panic(&os.PathError{Op: "open", Path: "x", Err: sentinel}) })
	try(func() { _, err := strconv.Atoi("x"); panic(err) })
	try(func() { panic(1.5) })
	func() {
		defer func() { fmt.Println(recover() == sentinel) }()
		panic(sentinel)
	}()
	func() {
		defer func() { r := recover(); fmt.Println(r == Plain{1, 2}, r == "x") }()
		panic(Plain{1, 2})
	}()
}
