package main

import "fmt"

type MyErr struct{ code int }

func (e *MyErr) Error() string { return fmt.Sprint("myerr ", e.code) }

// the usual pattern: convert a panic to an error result
func safe(f func()) (err error) {
	defer func() {
		if r := recover(); r != nil {
			if e, ok := r.(error); ok {
				err = e
				return
			}
			err = fmt.Errorf("panic: %v", r)
		}
	}()
	f()
	return nil
}

func main() {
	err := safe(func() { panic(&MyErr{1}) })
	fmt.Println(err)
	me, ok := err.(*MyErr)
	fmt.Println(ok, me.code)
	err = safe(func() { panic("s") })
	fmt.Println(err)
	err = safe(func() { defer panic(&MyErr{2}); panic("first") })
	fmt.Println(err)
	// re-panic of a recovered script value
	err = safe(func() {
		defer func() {
			r := recover()
			panic(r)
		}()
		panic(&MyErr{3})
	})
	fmt.Println(err)
	fmt.Println(safe(func() {}))
}
