package main

import "fmt"

type MyErr struct{ code int }

func (e *MyErr) Error() string { return fmt.Sprint("myerr ", e.code) }

// an uncaught panic with a script value: what the host prints
func main() {
	fmt.Println("start")
	panic(&MyErr{9})
}
