package main

import "fmt"

type Pt struct{ x, y int }

func (p Pt) String() string { return fmt.Sprintf("(%d,%d)", p.x, p.y) }

type MyErr struct{ code int }

func (e *MyErr) Error() string { return fmt.Sprint("myerr ", e.code) }

type Code int

func (c Code) Error() string { return fmt.Sprint("code ", int(c)) }

func try(f func()) {
	defer func() {
		r := recover()
		_, isPt := r.(Pt)
		_, isMy := r.(*MyErr)
		_, isCode := r.(Code)
		s, isStr := r.(fmt.Stringer)
		e, isErr := r.(error)
		fmt.Println(isPt, isMy, isCode, isStr, isErr)
		if isStr {
			fmt.Println("str:", s.String())
		}
		if isErr {
			fmt.Println("err:", e.Error())
		}
	}()
	f()
}

func main() {
	try(func() { panic(Pt{1, 2}) })
	try(func() { panic(&MyErr{7}) })
	try(func() { panic(Code(3)) })
	try(func() { p := Pt{5, 6}; panic(p) })
	try(func() { panic("plain") })
	try(func() { panic(fmt.Errorf("host %d", 1)) })
	try(func() { var e error; panic(e) })
}
