package main

import "fmt"

type Pt struct{ x, y int }

func (p Pt) String() string { return fmt.Sprintf("(%d,%d)", p.x, p.y) }

type Plain struct{ a int }

// the panic value printed / compared / goroutine / deferred panic
func main() {
	func() {
		defer func() {
			r := recover()
			fmt.Println(r)
			fmt.Printf("%v\n", r)
		}()
		panic(Pt{1, 2})
	}()
	func() {
		defer func() {
			r := recover()
			fmt.Printf("%v\n", r)
			p, ok := r.(Plain)
			fmt.Println(p.a, ok)
			_, ok = r.(fmt.Stringer)
			fmt.Println(ok)
		}()
		panic(Plain{4})
	}()
	func() {
		defer func() {
			r := recover()
			fmt.Printf("%v\n", r)
		}()
		defer panic(Pt{8, 9})
	}()
	done := make(chan string)
	go func() {
		defer func() { done <- recover().(fmt.Stringer).String() }()
		panic(Pt{6, 7})
	}()
	fmt.Println(<-done)
}
