package main

import "fmt"

type MyErr struct{ code int }

func (e *MyErr) Error() string { return fmt.Sprint("myerr ", e.code) }

func main() {
	defer func() {
		r := recover()
		_, isMy := r.(*MyErr)
		e, isErr := r.(error)
		fmt.Println("got", isMy, isErr)
		if isErr {
			fmt.Println(e.Error())
		}
	}()
	panic(&MyErr{7})
}
