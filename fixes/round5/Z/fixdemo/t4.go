package main

import "fmt"

type Pt struct{ x, y int }

func (p Pt) String() string { return fmt.Sprintf("(%d,%d)", p.x, p.y) }

type MyErr struct{ code int }

func (e *MyErr) Error() string { return fmt.Sprint("myerr ", e.code) }

func main() {
	var x interface{} = Pt{3, 4}
	_, ok := x.(fmt.Stringer)
	fmt.Println(ok)
	var err error = &MyErr{8}
	var y interface{} = err
	_, ok = y.(*MyErr)
	fmt.Println(ok)
	_, ok = err.(*MyErr)
	fmt.Println(ok)
}
