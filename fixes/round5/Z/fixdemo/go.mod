module fixdemo

go 1.23
