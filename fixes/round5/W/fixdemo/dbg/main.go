// Command dbg runs a Go program under the yaegi debugger with line breakpoints
// and prints the line of every stop.
//
//	dbg prog.go 12 15 ...
package main

import (
	"context"
	"fmt"
	"os"
	"strconv"
	"strings"

	"github.com/traefik/yaegi/interp"
	"github.com/traefik/yaegi/stdlib"
)

func main() {
	src, err := os.ReadFile(os.Args[1])
	if err != nil {
		panic(err)
	}
	var reqs []interp.BreakpointRequest
	var lines []int
	all := len(os.Args) > 2 && os.Args[2] == "all"
	if all {
		os.Args = os.Args[:2]
		for l := 1; l <= strings.Count(string(src), "\n"); l++ {
			os.Args = append(os.Args, strconv.Itoa(l))
		}
	}
	for _, a := range os.Args[2:] {
		l, _ := strconv.Atoi(a)
		lines = append(lines, l)
		reqs = append(reqs, interp.LineBreakpoint(l))
	}
	i := interp.New(interp.Options{})
	if err := i.Use(stdlib.Symbols); err != nil {
		panic(err)
	}
	prog, err := i.Compile(string(src))
	if err != nil {
		fmt.Println("compile:", err)
		os.Exit(1)
	}
	var dbg *interp.Debugger
	hits := map[int]int{}
	valid := map[int]bool{}
	dbg = i.Debug(context.Background(), prog, func(e *interp.DebugEvent) {
		switch e.Reason() {
		case interp.DebugBreak:
			fr := e.Frames(0, 1)
			l := fr[0].Position().Line
			hits[l]++
			if !all {
				fmt.Printf("## break line %d (%s)\n", l, fr[0].Name())
			}
			go dbg.Continue(e.GoRoutine())
		}
	}, nil)
	func() {
		defer func() {
			if r := recover(); r != nil {
				fmt.Println("## SetBreakpoints PANIC:", r)
				os.Exit(3)
			}
		}()
		for k, b := range dbg.SetBreakpoints(interp.ProgramBreakpointTarget(prog), reqs...) {
			valid[lines[k]] = b.Valid
			if !all {
				fmt.Printf("## request line %d valid=%v at %d\n", lines[k], b.Valid, b.Position.Line)
			}
		}
	}()
	if err := dbg.Continue(0); err != nil {
		panic(err)
	}
	_, err = dbg.Wait()
	if err != nil {
		fmt.Println("## error:", err)
	}
	if all {
		for k, t := range strings.Split(strings.TrimRight(string(src), "\n"), "\n") {
			m := "   -"
			if valid[k+1] {
				m = fmt.Sprintf("%4d", hits[k+1])
			}
			fmt.Printf("## %s |%3d %s\n", m, k+1, t)
		}
		return
	}
	for _, l := range lines {
		fmt.Printf("## hits line %d = %d\n", l, hits[l])
	}
}
