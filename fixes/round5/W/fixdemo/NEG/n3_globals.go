package main

import "fmt"

var a = f(1)

var (
	b = f(a)
	c = []int{f(2), f(3)}
)

const k = 10

func f(n int) int {
	return n + k
}

func init() {
	a++
}

func main() {
	var d = f(4)
	fmt.Println(a, b, c, d)
}
