package main

import "fmt"

func main() {
	a := make(chan int, 1)
	b := make(chan string, 1)
	done := make(chan bool, 1)
	a <- 1
	for i := 0; i < 4; i++ {
		select {
		case v := <-a:
			fmt.Println("a", v)
			b <- "x"
		case s, ok := <-b:
			fmt.Println("b", s, ok)
			done <- true
		case <-done:
			fmt.Println("done")
		default:
			fmt.Println("default")
		}
	}
	var s string
	b <- "y"
	select {
	case s = <-b:
		fmt.Println("assigned", s)
	}
	select {
	case a <- 5:
		fmt.Println("sent")
	}
	select {
	case a <- 6:
	default:
	}
	fmt.Println(<-a)
}
