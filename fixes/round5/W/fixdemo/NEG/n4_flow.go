package main

import (
	"errors"
	"fmt"
	"strings"
)

type Shape interface{ Area() int }
type Sq struct{ s int }
type Rc struct{ w, h int }

func (q Sq) Area() int { return q.s * q.s }
func (r Rc) Area() int {
	return r.w * r.h
}

func find(xs [][]int, t int) (int, int, error) {
outer:
	for i, row := range xs {
		for j, v := range row {
			if v < 0 {
				continue outer
			}
			if v == t {
				return i, j, nil
			}
			if v > 100 {
				break outer
			}
		}
	}
	return -1, -1, errors.New("not found")
}

func grade(n int) string {
	if n > 90 {
		return "A"
	} else if n > 80 {
		return "B"
	} else {
		return "C"
	}
}

func main() {
	shapes := []Shape{Sq{2}, Rc{2, 3}}
	total := 0
	for _, s := range shapes {
		total += s.Area()
	}
	fmt.Println(total)
	fmt.Println(find([][]int{{1, -1, 5}, {2, 5}}, 5))
	fmt.Println(find([][]int{{1, 200}, {5}}, 5))
	fmt.Println(grade(95), grade(85), grade(10))
	var fs []func() int
	for i := 0; i < 3; i++ {
		fs = append(fs, func() int { return i * i })
	}
	for _, f := range fs {
		fmt.Print(f(), " ")
	}
	fmt.Println()
	sb := strings.Builder{}
	sb.WriteString("a")
	sb.WriteString(strings.Repeat("b", 2))
	fmt.Println(sb.String())
	switch n := len(sb.String()); {
	case n > 2 && strings.HasPrefix(sb.String(), "a"):
		fmt.Println("long a")
	}
	x, y := 1, 2
	x, y = y, x
	if x > y {
		x = 0
	}
	fmt.Println(x, y)
}
