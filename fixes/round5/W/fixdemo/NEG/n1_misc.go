package main

import (
	"fmt"
	"sync"
)

type S struct {
	a int
	b string
}

var g = initG()

func initG() int {
	return 42
}

func fib(n int) int {
	if n < 2 {
		return n
	}
	return fib(n-1) + fib(n-2)
}

func worker(wg *sync.WaitGroup, c chan int, n int) {
	defer wg.Done()
	c <- n * 2
}

func main() {
	s := S{
		a: 1,
		b: "x",
	}
	fmt.Println(s, g)
	fmt.Println(fib(5))
	var wg sync.WaitGroup
	c := make(chan int, 2)
	wg.Add(2)
	go worker(&wg, c, 1)
	go worker(&wg, c, 2)
	wg.Wait()
	close(c)
	t := 0
	for v := range c {
		t += v
	}
	fmt.Println(t)
	select {
	case v, ok := <-c:
		fmt.Println("closed", v, ok)
	default:
		fmt.Println("default")
	}
	f := func(a int) int {
		return a + 1
	}
	fmt.Println(f(1))
	defer fmt.Println("deferred")
	var e error
	if e == nil && t > 0 ||
		t < 0 {
		fmt.Println("cond")
	}
	func() {
		defer func() { recover() }()
		var m map[string]int
		m["a"] = 1
	}()
}
