module fixdemo

go 1.21

require github.com/traefik/yaegi v0.0.0

replace github.com/traefik/yaegi => ../
