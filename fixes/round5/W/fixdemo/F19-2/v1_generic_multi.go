package main

import "fmt"

type Number interface {
	~int | ~float64
}

func sum[T Number](a []T) T {
	var s T
	for _, v := range a {
		s += v
	}
	return s
}

func mapf[T, U any](a []T, f func(T) U) []U {
	r := make([]U, 0, len(a))
	for _, v := range a {
		r = append(r, f(v))
	}
	return r
}

type Box[T any] struct{ v T }

func (b *Box[T]) Get() T {
	return b.v
}

func (b *Box[T]) Set(v T) { b.v = v }

func unused[T any](x T) T {
	return x
}

func main() {
	fmt.Println(sum([]int{1, 2, 3}))
	fmt.Println(sum([]float64{1.5, 2}))
	fmt.Println(mapf([]int{1, 2}, func(i int) int { return i * 2 }))
	b := &Box[string]{}
	b.Set("hi")
	fmt.Println(b.Get())
}
