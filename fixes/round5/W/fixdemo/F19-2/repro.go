package main

import "fmt"

func first[T any](a []T) T {
	return a[0]
}

func main() {
	x := first([]int{4, 5})
	fmt.Println(x)
}
