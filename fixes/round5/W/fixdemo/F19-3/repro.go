package main

import "fmt"

func main() {
	x := 0
	for x < 5 {
		x++
		if x == 2 {
			continue
		}
		if x == 4 {
			break
		}
	}
	fmt.Println(x)
}
