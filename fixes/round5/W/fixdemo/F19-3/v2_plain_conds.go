package main

import "fmt"

type T struct{ ok bool }

func main() {
	ok := true
	t := T{ok: true}
	n := 0
	if ok {
		n++
	}
	if t.ok {
		n++
	}
	for ok {
		n++
		ok = false
	}
	k := 2
	switch k {
	case 2:
		n += 10
	}
	switch 3 {
	case 3:
		n += 100
	}
	switch x := k + 1; x {
	case 3:
		n += 1000
	}
	var i interface{} = n
	switch i.(type) {
	case int:
		n++
	}
	for {
		n++
		break
	}
	fmt.Println(n)
}
