package main

import "fmt"

func f(n int) {
	if n > 2 {
		return
	}
	fmt.Println("f", n)
}

func g(n int) (r int) {
	r = n * 2
	if r > 4 {
		return
	}
	r++
	return
}

func main() {
	i := 0
loop:
	if i < 3 {
		i++
		goto loop
	}
	f(1)
	f(3)
	fmt.Println(g(1), g(3), i)
	k := 2
	switch k {
	case 1:
		fmt.Println("one")
	case 2:
		fmt.Println("two")
		fallthrough
	case 3:
		fmt.Println("three")
	}
}
