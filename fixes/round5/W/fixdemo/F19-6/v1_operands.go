package main

import "fmt"

type P struct{ x, y int }

func add(a, b int) int { return a + b }

func mk(n int) *P {
	return &P{n, n + 1}
}

func div(a, b int) int {
	return a / b
}

func main() {
	x := add(1, 2)
	y := add(add(x, 1), add(2, 3))
	p := mk(y)
	p.x = add(p.y,
		4)
	a := []int{1, 2, 3}
	a[add(0, 1)] = add(5, 5)
	fmt.Println(x, y, p.x, p.y, a)
	defer func() {
		r := recover()
		fmt.Println("recovered", r != nil)
	}()
	z := div(x, y-y)
	fmt.Println(z)
}
