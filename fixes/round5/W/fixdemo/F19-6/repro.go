package main

import "fmt"

func bad(a int) int {
	var s []int
	return s[a]
}

func main() {
	fmt.Println("start")
	x := bad(2)
	fmt.Println(x)
}
