package main

import "fmt"

func boom(m map[string]int, k string) int {
	if m == nil {
		panic("nil map " + k)
	}
	return m[k]
}

func main() {
	fmt.Println("start")
	v := boom(nil, "a") + 1
	fmt.Println(v)
}
