//go:build verif

// Command dump prints the nodes of a compiled program (tree, CFG edges).
package main

import (
	"fmt"
	"os"
	"strings"

	"github.com/traefik/yaegi/interp"
	"github.com/traefik/yaegi/stdlib"
)

func main() {
	src, _ := os.ReadFile(os.Args[1])
	i := interp.New(interp.Options{})
	i.Use(stdlib.Symbols)
	prog, err := i.Compile(string(src))
	if err != nil {
		fmt.Println(err)
		return
	}
	d := i.VerifC19Dump(prog)
	depth := make([]int, len(d))
	for k, n := range d {
		if n.Parent >= 0 {
			depth[k] = depth[n.Parent] + 1
		}
		ex := " "
		if n.Clo != 0 {
			ex = "X"
		}
		fmt.Printf("%3d %s L%-3d %s%s/%s start=%d t=%d f=%d\n", k, ex, n.Line, strings.Repeat("  ", depth[k]), n.Kind, n.Action, n.Start, n.Tnext, n.Fnext)
	}
}
