package main

import "fmt"

type T struct{ n int }

func (t *T) inc() { t.n++ }

func main() {
	t := &T{}
	t.inc()
	t.inc()
	fmt.Println(t.n)
}
