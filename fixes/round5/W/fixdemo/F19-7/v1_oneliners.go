package main

import "fmt"

type T struct{ n int }

func (t *T) inc()                      { t.n++ }
func (t T) get() int                   { return t.n }
func add(a *int, b int)                { *a += b }
func twice(f func(int) int, v int) int { return f(f(v)) }
func nothing()                         {}

func main() {
	t := &T{}
	t.inc()
	t.inc()
	fmt.Println(t.get())
	v := 1
	add(&v, 2)
	fmt.Println(twice(func(i int) int { return i * 3 }, v))
	nothing()
	g := func(p *T) { p.n = 10 }
	g(t)
	fmt.Println(t.n)
	if t.n > 5 {
		fmt.Println("big")
	} else {
		fmt.Println("small")
	}
}
