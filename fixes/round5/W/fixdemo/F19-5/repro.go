package main

import "fmt"

func main() {
	x := 2
	y := 3
	switch {
	case y < 2:
		x = 1
	case y > x:
		x = 5
	default:
		x = 7
	}
	fmt.Println(x, y)
}
