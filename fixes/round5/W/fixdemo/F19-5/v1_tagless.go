package main

import "fmt"

func classify(n int) string {
	switch {
	case n < 0:
		return "neg"
	case n == 0 || n == 1:
		return "small"
	case n > 100 && n < 200:
		return "mid"
	default:
		return "other"
	}
}

func main() {
	for _, n := range []int{-1, 0, 1, 150, 7} {
		fmt.Println(classify(n))
	}
	x := 3
	switch y := x * 2; {
	case y > 5:
		fmt.Println("big")
		fallthrough
	case y > 100:
		fmt.Println("huge")
	}
	switch x {
	case 1, 2:
		fmt.Println("12")
	case 3:
		fmt.Println("3")
	}
	switch {
	case x > 0:
		switch {
		case x > 2:
			fmt.Println("x>2")
		}
	}
	var i interface{} = "s"
	switch v := i.(type) {
	case int:
		fmt.Println("int", v)
	case string:
		fmt.Println("string", v)
	}
}
