#!/bin/sh
# Rebuilds the drivers against the checkout in .. and replays every program:
# compares the program output with `go run`, and writes the per-line stop counts
# (breakpoint requested on every line) next to each program as <name>.lines.txt.
export GOFLAGS=-mod=mod GOPROXY=off GOSUMDB=off GOTOOLCHAIN=local
cd "$(dirname "$0")" || exit 1
go build -o dbg.bin ./dbg || exit 1
for f in F19-*/*.go NEG/*.go; do
	go run "$f" > /tmp/fixdemo.go.txt 2>/dev/null
	./dbg.bin "$f" all > /tmp/fixdemo.all.txt 2>/dev/null
	grep -v '^##' /tmp/fixdemo.all.txt > /tmp/fixdemo.dbg.txt
	st=same; cmp -s /tmp/fixdemo.go.txt /tmp/fixdemo.dbg.txt || st=DIFF
	grep '^##' /tmp/fixdemo.all.txt > "${f%.go}.lines.txt"
	echo "$f output:$st"
done
