package main

import "fmt"

func main() {
	s := 0
	for i := 0; i < 3; i++ {
		s += i
	}
	j := 0
	for ; j < 2; j++ {
		s += 10
	}
	for k := 0; k < 2; {
		k++
		s += 100
	}
	for i := 0; i < 2; i++ {
		for j := 0; j < 2; j++ {
			s += 1000
		}
	}
	for i := 0; i < 4; i++ {
		if i == 1 {
			continue
		}
		if i == 3 {
			break
		}
		s += 10000
	}
	for i := 0; i < 2; i++ {
		s += 100000
	}
	for i, n := 0, 2; i < n; i, n = i+1, n {
		s += 1000000
	}
	for i := range 2 {
		s += i
	}
	for _, v := range []int{1, 2, 3} {
		s += v
	}
	m := map[string]int{"a": 1}
	for k, v := range m {
		s += v + len(k)
	}
	fmt.Println(s)
}
