package main

import "fmt"

func main() {
	s := 0
	for i := 0; i < 3; i++ {
		s += i
	}
	fmt.Println(s)
}
