// Command stepdrv runs a program under the yaegi debugger, stepping (into|over) from the
// entry, with optional line breakpoints, and prints reason and line of every stop.
//
//	stepdrv prog.go into|over [line ...]
package main

import (
	"context"
	"fmt"
	"os"
	"strconv"
	"time"

	"github.com/traefik/yaegi/interp"
	"github.com/traefik/yaegi/stdlib"
)

func main() {
	src, _ := os.ReadFile(os.Args[1])
	mode := interp.DebugStepInto
	if os.Args[2] == "over" {
		mode = interp.DebugStepOver
	}
	var reqs []interp.BreakpointRequest
	for _, a := range os.Args[3:] {
		l, _ := strconv.Atoi(a)
		reqs = append(reqs, interp.LineBreakpoint(l))
	}
	i := interp.New(interp.Options{})
	i.Use(stdlib.Symbols)
	prog, err := i.Compile(string(src))
	if err != nil {
		fmt.Println("compile:", err)
		os.Exit(1)
	}
	names := map[interp.DebugEventReason]string{interp.DebugBreak: "break", interp.DebugStepInto: "into", interp.DebugStepOver: "over", interp.DebugEntry: "entry"}
	var dbg *interp.Debugger
	step := func(id int) {
		for dbg.Step(id, mode) == interp.ErrRunning {
			time.Sleep(time.Millisecond)
		}
	}
	dbg = i.Debug(context.Background(), prog, func(e *interp.DebugEvent) {
		if n, ok := names[e.Reason()]; ok {
			fr := e.Frames(0, 1)
			l := 0
			if len(fr) > 0 {
				l = fr[0].Position().Line
			}
			fmt.Printf("## %s %d\n", n, l)
			go step(e.GoRoutine())
		}
	}, nil)
	if len(reqs) > 0 {
		dbg.SetBreakpoints(interp.ProgramBreakpointTarget(prog), reqs...)
	}
	dbg.Step(0, interp.DebugEntry)
	if _, err := dbg.Wait(); err != nil {
		fmt.Println("## error:", err)
	}
}
