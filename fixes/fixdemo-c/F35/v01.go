package main

import "fmt"

func main() {
	y := 4
	if -(7) < y+y {
		fmt.Println("ok")
	}
	fmt.Println("end")
}
