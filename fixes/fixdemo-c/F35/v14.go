package main

import "fmt"

func main() {
	f := func(b int) bool { return b > 2 }
	x := 1
	if f((x)) && x > 0 {
		fmt.Println("ok")
	} else {
		fmt.Println("ko")
	}
	fmt.Println("end")
}
