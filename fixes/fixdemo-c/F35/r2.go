package main

import "fmt"

func main() {
	b, x := false, 3
	if b {
	} else if !(b) || (89 == x) {
		fmt.Println("ok")
	}
	fmt.Println("end")
}
