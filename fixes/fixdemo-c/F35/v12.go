package main

import "fmt"

func main() {
	b := false
	c := !(b) && !b
	fmt.Println(c)
	fmt.Println("end")
}
