package main

import "fmt"

func main() {
	b := true
	if !(b) && b {
		fmt.Println("ok")
	} else {
		fmt.Println("ko")
	}
	fmt.Println("end")
}
