package main

import "fmt"

func main() {
	y := 4
	z := y + -(7)
	fmt.Println(z)
	fmt.Println("end")
}
