package main

import "fmt"

func main() {
	b := false
	for i := 0; !(b) && i < 3; i++ {
		fmt.Println(i)
	}
	fmt.Println("end")
}
