package main

import "fmt"

func main() {
	x := 3
	p := &x
	if *(p) > 2 || x > 0 {
		fmt.Println("ok")
	}
	fmt.Println("end")
}
