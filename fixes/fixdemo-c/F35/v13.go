package main

import "fmt"

func main() {
	f := func(b bool) bool { return !b }
	x := false
	if f((x)) || x {
		fmt.Println("ok")
	}
	fmt.Println("end")
}
