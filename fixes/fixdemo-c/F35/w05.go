package main

import "fmt"

func main() {
	b := false
	i := 0
	for !(b) && i < 3 {
		fmt.Println(i)
		i++
	}
	fmt.Println("end")
}
