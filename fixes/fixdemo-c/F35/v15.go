package main

import "fmt"

func main() {
	x := 3
	if -(x) < 0 && x > 0 {
		fmt.Println("ok")
	}
	fmt.Println("end")
}
