package main

import "fmt"

func main() {
	y := "s"
	var x int8 = 3
	g := x + (7)
	fmt.Println(y, g)
	fmt.Println("end")
}
