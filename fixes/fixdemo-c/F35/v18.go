package main

import "fmt"

func main() {
	const c = 7
	y := 4
	if -(c) < y {
		fmt.Println("ok")
	}
	fmt.Println("end")
}
