package main

import "fmt"

func main() {
	y := "s"
	x := 3
	g := x + (7)
	fmt.Println(y, g)
	fmt.Println("end")
}
