package main

import "fmt"

func main() {
	b := true
	c := !(b) || b
	fmt.Println(c)
	fmt.Println("end")
}
