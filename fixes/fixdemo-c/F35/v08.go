package main

import "fmt"

func main() {
	b := false
	if !(b) || b {
		fmt.Println("ok")
	}
	fmt.Println("end")
}
