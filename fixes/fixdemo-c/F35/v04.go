package main

import "fmt"

func main() {
	y := 4
	var f float64 = 2
	g := f * (7)
	fmt.Println(y, g)
	fmt.Println("end")
}
