package main

import "fmt"

func main() {
	var x int64 = 3
	fmt.Println(x+int64(len("a"+"bc")), x*int64(1.5+2.5))
	fmt.Println("end")
}
