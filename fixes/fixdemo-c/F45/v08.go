package main

import "fmt"

func main() {
	x := 2
	fmt.Println(x + cap(make([]int, 1+1, 2*2)))
	fmt.Println("end")
}
