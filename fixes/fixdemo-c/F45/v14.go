package main

import "fmt"

func main() {
	var f float64 = 1
	fmt.Println(f+(1+2), f*(1+2)/(3-1), f - -(1+1))
	fmt.Println("end")
}
