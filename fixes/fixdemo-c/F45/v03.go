package main

import "fmt"

func main() {
	x := 3.5
	m := map[string]float64{"ab": 2}
	fmt.Println(x + m["a"+"b"])
	fmt.Println("end")
}
