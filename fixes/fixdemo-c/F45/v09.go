package main

import "fmt"

func main() {
	var d float64 = 2
	a := [4]int{1, 2, 3, 4}
	fmt.Println(d*float64(a[1+2]), d+float64(len(a[:1+1])))
	fmt.Println("end")
}
