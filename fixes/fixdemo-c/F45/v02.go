package main

import "fmt"

func main() {
	x := 3.5
	a := []float64{1, 2, 3}
	fmt.Println(x+a[1+1], x*a[(2-1)])
	fmt.Println("end")
}
