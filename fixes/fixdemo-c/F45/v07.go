package main

import "fmt"

func main() {
	s := "x"
	fmt.Println(s + string(rune(65+1)))
	fmt.Println("end")
}
