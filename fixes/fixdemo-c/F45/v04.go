package main

import "fmt"

func main() {
	x := 3.5
	f := func(s string, i int) float64 { return float64(len(s) + i) }
	fmt.Println(x + f("a"+"b", 1+2))
	fmt.Println("end")
}
