package main

import "fmt"

func main() {
	x := 3
	v := len("ab"+"c") + x
	fmt.Println(v)
}
