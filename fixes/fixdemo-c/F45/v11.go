package main

import "fmt"

func main() {
	x := 1.5
	fmt.Println(x + []float64{1 + 1, 2 * 3}[1-1])
	fmt.Println("end")
}
