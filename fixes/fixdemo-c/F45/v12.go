package main

import "fmt"

func main() {
	var u uint8 = 2
	fmt.Println(u + uint8(len("a"+"b")) + (1 + 2))
	fmt.Println("end")
}
