package main

import "fmt"

func main() {
	x := 1.5
	p := struct{ a, b int }{1 + 1, 2 * 3}
	fmt.Println(x + float64(p.a+p.b))
	fmt.Println("end")
}
