package main

import "fmt"

func main() {
	x := 3
	fmt.Println(x + func() int { return 1 + 2 }())
	fmt.Println("end")
}
