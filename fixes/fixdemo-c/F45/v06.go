package main

import "fmt"

func main() {
	s := "x"
	fmt.Println(s + fmt.Sprint(1+2, "a"+"b", 1.5*2))
	fmt.Println("end")
}
