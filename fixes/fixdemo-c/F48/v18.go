package main

import "fmt"

func main() {
	const c float64 = 7 / 2
	fmt.Println(c)
	fmt.Println("end")
}
