package main

import "fmt"

func main() {
	const (
		a = iota + 7
		b = a / 2 * 2
	)
	fmt.Println(a, b)
	fmt.Println("end")
}
