package main

import "fmt"

func main() {
	fmt.Println(float64(7)/2, float64(7/2))
	fmt.Println("end")
}
