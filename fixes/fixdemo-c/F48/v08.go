package main

import "fmt"

func main() {
	v := 7 / 2 * 2
	fmt.Println(v)
	fmt.Println("end")
}
