package main

import "fmt"

func main() {
	var v1 int
	v1 = -(2 / 3) - 17
	fmt.Println(v1)
	fmt.Println("end")
}
