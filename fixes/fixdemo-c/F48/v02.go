package main

import "fmt"

func main() {
	var f float64 = 3 / 2
	fmt.Println(f)
	fmt.Println("end")
}
