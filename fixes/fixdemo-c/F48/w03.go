package main

import "fmt"

func main() {
	const a float64 = 7
	var f float64 = (a * 1) / 2
	fmt.Println(f)
	fmt.Println("end")
}
