package main

import "fmt"

func main() {
	var i interface{} = 7 / 2
	fmt.Println(i)
	fmt.Println("end")
}
