package main

import "fmt"

func main() {
	var x [7 / 2 * 2]int
	fmt.Println(len(x))
	fmt.Println("end")
}
