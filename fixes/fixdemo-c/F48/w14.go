package main

import "fmt"

func main() {
	s := []int{1, 2, 3, 4, 5, 6, 7}
	fmt.Println(s[7/2*2])
	fmt.Println("end")
}
