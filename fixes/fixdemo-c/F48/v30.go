package main

import "fmt"

func main() {
	var f float64 = float64(7 / 2)
	fmt.Println(f)
	fmt.Println("end")
}
