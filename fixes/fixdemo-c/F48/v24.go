package main

import "fmt"

func main() {
	fmt.Println(7/2*2, 7/2.0)
	fmt.Println("end")
}
