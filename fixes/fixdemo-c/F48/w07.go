package main

import "fmt"

func main() {
	var f float64 = 6 / 2 / 2
	fmt.Println(f)
	fmt.Println("end")
}
