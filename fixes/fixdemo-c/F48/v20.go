package main

import "fmt"

func main() {
	const a, b = 7.0, 2
	var f float64 = a / b
	fmt.Println(f)
	fmt.Println("end")
}
