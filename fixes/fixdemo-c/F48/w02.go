package main

import "fmt"

func main() {
	const a float64 = 7
	fmt.Println((a * 1) / 2)
	fmt.Println("end")
}
