package main

import "fmt"

func main() {
	fmt.Println(1 << (7 / 2))
	fmt.Println("end")
}
