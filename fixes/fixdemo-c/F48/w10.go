package main

import "fmt"

func main() {
	const a = 7
	const b float64 = a / 2
	fmt.Println(b)
	fmt.Println("end")
}
