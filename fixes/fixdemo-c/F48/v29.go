package main

import "fmt"

func main() {
	type T int
	var t T = 7 / 2 * 2
	fmt.Println(t)
	fmt.Println("end")
}
