package main

import "fmt"

func main() {
	var r rune = 'a' / 2 * 2
	fmt.Println(r)
	fmt.Println("end")
}
