package main

import "fmt"

func main() {
	var v int64 = 1 + 7/2
	fmt.Println(v)
	fmt.Println("end")
}
