package main

import "fmt"

func main() {
	const c = 7 / 2
	var f float64 = c
	fmt.Println(f)
	fmt.Println("end")
}
