package main

import (
	"fmt"
	"math"
	"time"
)

const (
	ui           = 7
	uf           = 7.0
	tf   float64 = 7
	ti   int     = 7
	q1           = ui / 2
	q2           = uf / 2
	q3           = tf / 2
	q4           = ti / 2 * 2
	q5   float64 = ui / 2
	q6   float32 = ui / 2 * 2.0
	kb           = 1 << 10
	half         = kb / 3 * 3
)

var (
	g1 float64 = ui / 2
	g2         = ui / 2 * 2
	g3 int     = (ui / 2) * 2
	g4         = uf / 2
	g5 float64 = tf / 2
	g6         = time.Second / 3 * 3
	g7         = math.MaxInt32 / 2 * 2
	g8 float64 = math.MaxInt32 / 2
	g9         = math.Pi / 2
)

type celsius float64

func half3(d time.Duration) time.Duration { return d / 3 * 3 }

func main() {
	fmt.Println(q1, q2, q3, q4, q5, q6, kb, half)
	fmt.Println(g1, g2, g3, g4, g5, g6, g7, g8, g9)
	var c celsius = 9 / 5 * 100
	var d celsius = 9.0 / 5 * 100
	fmt.Println(c, d, half3(10*time.Second/4))
	fmt.Println(time.Duration(7/2)*time.Second, 7/2*time.Second, time.Second*7/2)
	x := []int{1, 2, 3, 4}
	fmt.Println(x[len(x)/2], x[3/2], float64(len(x))/3*3 > 3.9)
}
