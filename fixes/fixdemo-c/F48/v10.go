package main

import "fmt"

func main() {
	var v uint8 = 200 + 7/2
	fmt.Println(v)
	fmt.Println("end")
}
