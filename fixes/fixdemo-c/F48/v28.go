package main

import "fmt"

func main() {
	var v int
	v += 7 / 2
	fmt.Println(v)
	fmt.Println("end")
}
