package main

import "fmt"

func main() {
	const a int = 7
	var f int = a / 2 * 2
	fmt.Println(f)
	fmt.Println("end")
}
