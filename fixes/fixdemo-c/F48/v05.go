package main

import "fmt"

func main() {
	var v int = 7 / 2
	fmt.Println(v)
	fmt.Println("end")
}
