package main

import "fmt"

func main() {
	const a uint8 = 7
	fmt.Println(a / 2 * 2)
	fmt.Println("end")
}
