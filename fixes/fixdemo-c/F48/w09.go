package main

import "fmt"

func main() {
	type T float32
	const a T = 7
	fmt.Println(a / 2 * 2)
	fmt.Println("end")
}
