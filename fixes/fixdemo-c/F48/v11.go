package main

import "fmt"

func main() {
	var f float32 = 1 + 7/2
	fmt.Println(f)
	fmt.Println("end")
}
