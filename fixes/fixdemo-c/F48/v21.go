package main

import "fmt"

func main() {
	var d = 'a' / 2 * 2
	fmt.Println(d)
	fmt.Println("end")
}
