package main

import "fmt"

func main() {
	var d float64 = 10
	fmt.Println(d*(7/2), d/(7/2))
	fmt.Println("end")
}
