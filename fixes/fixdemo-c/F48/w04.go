package main

import "fmt"

func main() {
	const a int = 7
	fmt.Println(a / 2 * 2)
	fmt.Println("end")
}
