package main

import "fmt"

func main() {
	var v int = 6.0 / 2.0
	fmt.Println(v)
	fmt.Println("end")
}
