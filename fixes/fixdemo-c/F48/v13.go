package main

import "fmt"

func main() {
	x := 3.0
	v := x + 7/2
	fmt.Println(v)
	fmt.Println("end")
}
