package main

import "fmt"

func main() {
	x, y, z := 9, 4, 76
	if y > 3+x {
		x = y + 7
	} else if !true || z >= z {
		fmt.Println("b13")
	}
	fmt.Println("end")
}
