package main

import "fmt"

func main() {
	z := 1
	v := z < 0 || !true || z == 1
	fmt.Println(v)
	fmt.Println("end")
}
