package main

import "fmt"

func main() {
	z := 1
	switch {
	case !true || z == 1:
		fmt.Println("one")
	default:
		fmt.Println("def")
	}
	fmt.Println("end")
}
