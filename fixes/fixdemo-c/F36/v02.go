package main

import "fmt"

func main() {
	z := 1
	if !true || z >= z {
		fmt.Println("a")
	}
	fmt.Println("end")
}
