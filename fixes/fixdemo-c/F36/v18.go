package main

import "fmt"

func main() {
	z := 1
	if !true || !false && z == 1 {
		fmt.Println("a")
	}
	fmt.Println("end")
}
