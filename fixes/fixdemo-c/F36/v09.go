package main

import "fmt"

func main() {
	const c = false
	z := 1
	v := !c && z >= z
	w := c || z == 1
	fmt.Println(v, w)
	fmt.Println("end")
}
