package main

import "fmt"

func main() {
	z := 1
	v := !!false || z >= z
	fmt.Println(v)
	fmt.Println("end")
}
