package main

import "fmt"

func main() {
	type B bool
	const t B = true
	z := 1
	v := !t || B(z == 1)
	fmt.Println(v)
	fmt.Println("end")
}
