package main

import "fmt"

func main() {
	z := 1
	switch {
	case z > 1:
		fmt.Println("big")
	case !false:
		fmt.Println("yes")
	default:
		fmt.Println("def")
	}
	fmt.Println("end")
}
