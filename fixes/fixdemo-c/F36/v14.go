package main

import "fmt"

func main() {
	z := 1
	f := func() bool { fmt.Println("called"); return true }
	v := !false || f()
	w := !true && f()
	fmt.Println(v, w, z)
	fmt.Println("end")
}
