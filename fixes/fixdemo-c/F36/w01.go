package main

import "fmt"

func main() {
	switch {
	case !true:
		fmt.Println("wrong")
	default:
		fmt.Println("def")
	}
	fmt.Println("end")
}
