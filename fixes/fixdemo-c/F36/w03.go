package main

import "fmt"

func main() {
	z := 1
	if z == 1 || !true {
		fmt.Println("a")
	}
	fmt.Println("end")
}
