package main

import "fmt"

func main() {
	z := 1
	for i := 0; !false && i < 2; i++ {
		fmt.Println(i, z)
	}
	fmt.Println("end")
}
