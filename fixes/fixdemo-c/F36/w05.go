package main

import "fmt"

func main() {
	if !true {
		fmt.Println("a")
	} else if !false {
		fmt.Println("b")
	}
	fmt.Println("end")
}
