package main

import "fmt"

func main() {
	for !true {
		fmt.Println("never")
	}
	fmt.Println("end")
}
