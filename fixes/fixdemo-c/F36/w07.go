package main

import "fmt"

func main() {
	i := 0
	for !false {
		i++
		if i > 2 {
			break
		}
	}
	fmt.Println(i)
	fmt.Println("end")
}
