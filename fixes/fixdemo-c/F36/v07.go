package main

import "fmt"

func main() {
	z := 1
	v := (!true) || z >= z
	fmt.Println(v)
	fmt.Println("end")
}
