package main

import "fmt"

func main() {
	z := 1
	f := func() bool { fmt.Println("called"); return true }
	v := !true || f()
	w := !false && f()
	fmt.Println(v, w, z)
	fmt.Println("end")
}
