package main

import "fmt"

func main() {
	z := 1
	v := !(1 > 2) && z == 1
	fmt.Println(v)
	fmt.Println("end")
}
