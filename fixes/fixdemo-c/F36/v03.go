package main

import "fmt"

func main() {
	z := 1
	if !false && z > z {
		fmt.Println("a")
	} else {
		fmt.Println("b")
	}
	fmt.Println("end")
}
