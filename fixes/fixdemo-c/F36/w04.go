package main

import "fmt"

func main() {
	z := 1
	if z == 2 && !false {
		fmt.Println("a")
	} else {
		fmt.Println("b")
	}
	fmt.Println("end")
}
