package main

import "fmt"

func main() {
	fmt.Println((1 < (0 + 2)) == (3 > (1 + 1)))
	fmt.Println("end")
}
