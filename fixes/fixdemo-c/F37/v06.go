package main

import "fmt"

func main() {
	if 1 < (2 + 0) {
		fmt.Println("f")
	}
	fmt.Println("end")
}
