package main

import "fmt"

func main() {
	if -7 == (2 + 0) {
		fmt.Println("c")
	}
	fmt.Println("end")
}
