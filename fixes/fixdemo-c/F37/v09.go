package main

import "fmt"

func main() {
	v := 3 == (2 + 1)
	fmt.Println(v)
	fmt.Println("end")
}
