package main

import "fmt"

func main() {
	x := 3
	switch {
	case x > 5:
		fmt.Println("big")
	case 3 == (1 + 2):
		fmt.Println("const")
	}
	fmt.Println("end")
}
