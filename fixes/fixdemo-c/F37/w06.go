package main

import "fmt"

func main() {
	var i interface{} = 3
	fmt.Println(i == (1+2), (1+2) == i, i != (2+2))
	fmt.Println("end")
}
