package main

import "fmt"

func main() {
	var u uint8 = 3
	fmt.Println(u == (1+2), (5-2) != u, u < (2*2))
	fmt.Println("end")
}
