package main

import "fmt"

func main() {
	if 'a'+1 == 'b' {
		fmt.Println("n")
	}
	fmt.Println("end")
}
