package main

import "fmt"

func main() {
	s := 2
	a := []int{1, 2, 3}
	fmt.Println(len(a) == (1+s), (len(a)+1) > (s*2))
	fmt.Println("end")
}
