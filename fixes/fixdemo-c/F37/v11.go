package main

import "fmt"

func main() {
	var f float64 = 2.5
	if f > (1+1) && f < (2+1) {
		fmt.Println("i")
	}
	fmt.Println("end")
}
