package main

import "fmt"

func main() {
	if ("a" + "b") == "ab" {
		fmt.Println("h")
	}
	fmt.Println("end")
}
