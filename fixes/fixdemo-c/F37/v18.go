package main

import "fmt"

func main() {
	if "ab" < ("a" + "c") {
		fmt.Println("m")
	}
	fmt.Println("end")
}
