package main

import "fmt"

func main() {
	x := 3
	b := x > 1 && 2 == (1+1)
	fmt.Println(b)
	fmt.Println("end")
}
