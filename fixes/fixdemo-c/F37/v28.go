package main

import "fmt"

func main() {
	var f float32 = 2
	fmt.Println(f == (1+1), f*(1+1) > (2+1))
	fmt.Println("end")
}
