package main

import "fmt"

func main() {
	w := (2 * 2) < 3
	fmt.Println(w)
	fmt.Println("end")
}
