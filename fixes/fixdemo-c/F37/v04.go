package main

import "fmt"

func main() {
	if (3 - 1) == (2 + 0) {
		fmt.Println("d")
	}
	fmt.Println("end")
}
