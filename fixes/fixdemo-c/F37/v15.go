package main

import "fmt"

func main() {
	fmt.Println(1 == 2-1, 2 < 1+0)
	fmt.Println("end")
}
