package main

import "fmt"

func main() {
	if 3 == 2+1 {
		fmt.Println("j")
	}
	fmt.Println("end")
}
