package main

import "fmt"

func main() {
	if 1.5 == (1 + 0.5) {
		fmt.Println("k")
	}
	fmt.Println("end")
}
