package main

import "fmt"

func main() {
	fmt.Println(-7 == (2+0), -(7) < (2*3), (1+1i) == (1+1i))
	fmt.Println("end")
}
