package main

import "fmt"

func main() {
	x := 2
	if x == (2 + 0) {
		fmt.Println("a")
	}
	fmt.Println("end")
}
