package main

import "fmt"

func main() {
	if 2 != (2 + 0) {
		fmt.Println("e")
	}
	fmt.Println("end")
}
