package main

import "fmt"

func main() {
	s := uint(2)
	x := 4
	fmt.Println(x == 1<<s, 1<<s == x, x < (1<<s)+1)
	fmt.Println("end")
}
