package main

import "fmt"

func main() {
	c := 'b'
	fmt.Println(c == ('a'+1), c-'a' == (2-1))
	fmt.Println("end")
}
