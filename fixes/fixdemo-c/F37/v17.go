package main

import "fmt"

func main() {
	if 1 == (0.5 + 0.5) {
		fmt.Println("l")
	}
	fmt.Println("end")
}
