package main

import "fmt"

func main() {
	x := 7
	if x > 100 {
		fmt.Println("a")
	} else if -7 == 2+0 {
		fmt.Println("b")
	}
	fmt.Println("end")
}
