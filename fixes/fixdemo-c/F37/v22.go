package main

import "fmt"

func main() {
	type T int
	var t T = 3
	fmt.Println(t == (1+2), (1<<2) > t)
	fmt.Println("end")
}
