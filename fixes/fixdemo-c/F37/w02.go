package main

import "fmt"

func main() {
	s := uint(2)
	var x int64 = 4
	fmt.Println(x == 1<<s, (1<<s)+1 > x)
	fmt.Println("end")
}
