package main

import "fmt"

func main() {
	for i := 0; 2 > (1+0) && i < 2; i++ {
		fmt.Println(i)
	}
	fmt.Println("end")
}
