package main

import "fmt"

func main() {
	x := 2
	if (1 + 1) == x {
		fmt.Println("b")
	}
	fmt.Println("end")
}
