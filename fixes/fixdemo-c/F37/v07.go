package main

import "fmt"

func main() {
	if (1.5 + 1) >= 2 {
		fmt.Println("g")
	}
	fmt.Println("end")
}
