package main

import "fmt"

func main() {
	var f float64 = 3
	n := 2
	fmt.Println(f > float64(n)*(1+0.25), (f/2) == (1+0.5))
	fmt.Println("end")
}
