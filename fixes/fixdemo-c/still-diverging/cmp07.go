package main

import "fmt"

func main() {
	var e error
	fmt.Println(e == nil, (e) == (nil))
	fmt.Println("end")
}
