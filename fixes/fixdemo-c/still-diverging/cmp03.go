package main

import "fmt"

func main() {
	s := uint(2)
	var x uint8 = 4
	fmt.Println(x == (1<<s), x != (1<<s|1))
	fmt.Println("end")
}
