package main

import "fmt"

func main() {
	var c complex128 = 3 / 2
	fmt.Println(c)
	fmt.Println("end")
}
