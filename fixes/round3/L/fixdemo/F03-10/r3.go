package main

import "fmt"

var c = 1<<70 > 2

func main() {
	fmt.Printf("%T %v\n", c, c)
}
