package main

import "fmt"

const c = 1+2 < 4

func main() {
	fmt.Printf("%T %v\n", c, c)
}
