package main

import "fmt"

const (
	debug   = true
	verbose = false
	both    = debug && verbose
	either  = debug || verbose
	neither = !(debug || verbose)
	mixed   = debug && 1 < 2 || verbose
	tb bool = true && !false
	size    = 10
	large   = size > 5 && size < 100
)

type B bool

const tB B = true

func f(b bool) string {
	if b {
		return "T"
	}
	return "F"
}

func side(s string, r bool) bool { fmt.Print(s); return r }

func main() {
	fmt.Println(both, either, neither, mixed, tb, large)
	if debug && verbose {
		fmt.Println("never")
	} else if debug || verbose {
		fmt.Println("either")
	}
	if debug && !verbose {
		fmt.Println("dv")
	}
	x := 3
	if debug && x > 2 {
		fmt.Println("a")
	}
	if x > 2 && debug {
		fmt.Println("b")
	}
	if verbose || x > 2 {
		fmt.Println("c")
	}
	if x > 5 || both || either {
		fmt.Println("d")
	}
	for i := 0; true && i < 2; i++ {
		fmt.Print(i)
	}
	for i := 0; i < 2 && (true || false); i++ {
		fmt.Print(i)
	}
	for false || false {
		fmt.Println("never")
	}
	n := 0
	for true && true {
		n++
		if n > 2 {
			break
		}
	}
	fmt.Println(n)
	y := true && false
	z := false || 1 < 2
	var w bool = (true || false) && z
	fmt.Println(y, z, w, f(true && true), f(false || verbose), tB && true, bool(tB) || false)
	fmt.Println(side("l", false) && true, true && side("r", true), false && side("x", true), true || side("y", true), side("z", false) || false)
	switch {
	case false && true:
		fmt.Println("never")
	case true && true:
		fmt.Println("sw")
	}
	fn := func() bool { return true && (false || true) }
	fmt.Println(fn(), []bool{true && false, true || false}, map[string]bool{"a": true && true})
	var i interface{} = true && false
	fmt.Printf("%T %v\n", i, i)
	if b := true && false; !b {
		fmt.Println("init")
	}
}
