package main

import (
	"fmt"
	"math"
	"os"
	"time"
)

const (
	a = 1 < 2
	b = 1+2 < 4
	c = (1 + 2) >= 4
	d = "a" < "b"
	e = 1.5 == 3.0/2
	f = 'a' != 97
	g = int8(1) < 2
	h = 2 > float32(1.5)
	i = !(1 < 2)
	j = 1 < 2 == true
	k = (1 < 2) && (2 < 3) || false
	l = 1<<70 > 1<<69
	m = time.Second > time.Millisecond
	n = math.MaxInt64 > math.MaxInt32
	o = 1i == 1i
	p = uint8(255) == 255
	q = true == false
	r = "ab"+"c" == "abc"
	s = len("abc") == 3
	t = float32(0.1) == 0.1
	u = float64(float32(0.1)) == 0.1
)

type B bool

var (
	va = 1 < 2
	vb = 1<<70 > 2
	vc bool = 1+2 < 4
	vd interface{} = 1 < 2
	ve = []bool{1 < 2, 2 < 1, 1+1 == 2}
	vf = map[bool]int{1 < 2: 1, 2 < 1: 2}
)

func cmp(x int) bool { return x < 10 && 1 < 2 }

func ret() bool { return 3 > 2 }

func main() {
	fmt.Println(a, b, c, d, e, f, g, h, i, j, k, l, m, n, o, p, q, r, s, t, u)
	fmt.Println(va, vb, vc, vd, ve, vf, cmp(3), cmp(30), ret())
	x := 5
	if 1 < 2 {
		fmt.Println("if1")
	}
	if 2 < 1 {
		fmt.Println("if2")
	} else {
		fmt.Println("else2")
	}
	if 1 < 2 && x > 3 {
		fmt.Println("and1")
	}
	if x > 3 && 1 < 2 {
		fmt.Println("and2")
	}
	if 2 < 1 || x > 3 {
		fmt.Println("or1")
	}
	if x > 30 || 1 < 2 {
		fmt.Println("or2")
	}
	if !(1 > 2) {
		fmt.Println("not")
	}
	if (1 < 2) == (x > 3) {
		fmt.Println("eqb")
	}
	for i := 0; 1 < 2; i++ {
		if i > 2 {
			break
		}
		fmt.Print(i)
	}
	for 2 < 1 {
		fmt.Println("never")
	}
	for j := 0; j < 3 && 1 < 2; j++ {
		fmt.Print(j)
	}
	fmt.Println()
	switch {
	case 2 < 1:
		fmt.Println("sw never")
	case 1 < 2:
		fmt.Println("sw ok")
	}
	switch 1 < 2 {
	case x > 3:
		fmt.Println("sw2 ok")
	}
	y := 1 < 2
	var z bool
	z = 2 < 1
	z2 := 1 < 2 != z
	fmt.Println(y, z, z2, 1 < 2, x < 2, 1 < x+1 == true)
	fmt.Printf("%T %v %v\n", 1 < 2, 1 == 1.0, "x" == "x")
	func(b bool) { fmt.Println(b) }(1 <= 1)
	ch := make(chan bool, 1)
	ch <- 3 > 2
	fmt.Println(<-ch, len(os.Args) > 100 == (1 > 2))
	var p *int
	var e error
	fmt.Println(p == nil, e != nil, nil == p)
	const big = 1 << 100
	fmt.Println(big > 1, big == big, uint64(1)<<63 > 1)
	st := struct{ ok bool }{1 < 2}
	fmt.Println(st, [2]bool{1 > 2, 1 < 2})
	defer fmt.Println("deferred", 1 < 2)
	go func(b bool) {}(1 < 2)
}
