package main

import "fmt"

func main() {
	fmt.Print()
	const c = "a" / "b"; fmt.Println(c)
}
