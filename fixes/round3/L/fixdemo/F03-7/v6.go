package main

import "fmt"

func main() {
	fmt.Print()
	const c = 7 / "a"; fmt.Println(c)
}
