package main

import "fmt"

const c0 = int8(7) / 2.5

func main() {
	fmt.Printf("%T %v\n", c0, c0)
}
