package main

import "fmt"

func main() {
	fmt.Print()
	const c = uint(7) / -1; fmt.Println(c)
}
