package main

import "fmt"

func main() {
	fmt.Print()
	x := 3; fmt.Println(x % int(0))
}
