package main

import "fmt"

func main() {
	fmt.Print()
	const c = int8(7) / 2.5; fmt.Println(c)
}
