package main

import "fmt"

func main() {
	fmt.Print()
	type T int; const c = T(7) / int(2); fmt.Println(c)
}
