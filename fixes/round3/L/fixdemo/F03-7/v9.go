package main

import "fmt"

func main() {
	fmt.Print()
	const c = int(1) / int(0); fmt.Println(c)
}
