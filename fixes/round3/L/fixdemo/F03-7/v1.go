package main

import "fmt"

func main() {
	fmt.Print()
	const c = int8(7) / int16(2); fmt.Println(c)
}
