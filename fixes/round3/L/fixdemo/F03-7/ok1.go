package main

import "fmt"

const (
	a = 7 / 2
	b = 7 / 2.0
	c = 7.0 / 2
	d = int8(7) / 2
	e = 7 / int8(2)
	f = float32(12.0) / 5e27
	g = 5e27 / float32(12.0)
	h = float64(1) / 3
	i = 1 / float64(3)
	j = 'a' / 2
	k = 2 / 'a'
	l = 'a' / 2.0
	m = 10 / 4i
	n = complex64(10) / 4
	o = uint8(200) / 3
	p = -7 / 2
	q = int64(-7) / 2
	r = (1 << 40) / 3
	s = 1.0 / 3.0
	t = uint(7) / uint(2)
	u = 6 / 3.0
	v = 'a' / 'b'
	w = 97.0 / 'a'
)

type T int8

const x T = 100 / 3
const y = T(100) / 3

var (
	va         = 7 / 2
	vb float64 = 7 / 2
	vc         = 7 / 2.0
	vd int     = (7 / 2) * 2
	ve float32 = 1 / 3.0
	vf         = int8(7) / 2
	vg         = 'a' / 2
	vh uint8   = 'a' / 2
)

func main() {
	fmt.Printf("%T %v\n%T %v\n%T %v\n%T %v\n%T %v\n%T %v\n%T %v\n%T %v\n", a, a, b, b, c, c, d, d, e, e, f, f, g, g, h, h)
	fmt.Printf("%T %v\n%T %v\n%T %v\n%T %v\n%T %v\n%T %v\n%T %v\n%T %v\n", i, i, j, j, k, k, l, l, m, m, n, n, o, o, p, p)
	fmt.Printf("%T %v\n%T %v\n%T %v\n%T %v\n%T %v\n%T %v\n%T %v\n", q, q, r, r, s, s, t, t, u, u, v, v, w, w)
	fmt.Println(x, y)
	fmt.Printf("%T %v\n%T %v\n%T %v\n%T %v\n%T %v\n%T %v\n%T %v\n%T %v\n", va, va, vb, vb, vc, vc, vd, vd, ve, ve, vf, vf, vg, vg, vh, vh)
	const la = 9 / 2
	const lb = 'z' / 3
	lc := 9 / 2.0
	ld := int16(9) / 2
	var le float64 = 9 / 2
	x1, f1 := 9, 9.0
	fmt.Printf("%T %v\n%T %v\n%T %v\n%T %v\n%T %v\n", la, la, lb, lb, lc, lc, ld, ld, le, le)
	fmt.Println(x1/2, f1/2, 9/x1, 9/f1, x1/2*2, float32(f1)/3, 100/int8(x1), f1/(1/2.0), x1/(7/2))
	x1 /= 2
	f1 /= 2
	fmt.Println(x1, f1)
}
