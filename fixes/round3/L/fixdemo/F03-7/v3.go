package main

import "fmt"

func main() {
	fmt.Print()
	var c = uint8(7) / 300; fmt.Println(c)
}
