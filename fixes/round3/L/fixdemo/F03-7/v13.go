package main

import "fmt"

func main() {
	fmt.Print()
	const c = int8(1) % int8(0); fmt.Println(c)
}
