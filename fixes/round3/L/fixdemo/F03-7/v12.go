package main

import "fmt"

func main() {
	fmt.Print()
	const c = true / false; fmt.Println(c)
}
