package main

import "fmt"

func main() {
	fmt.Print()
	x := 3; fmt.Println(x / (1 - 1))
}
