package main

import "fmt"

const c0 = float32(12.0) / 5e27

func main() {
	fmt.Printf("%T %v\n", c0, c0)
}
