package main

import "fmt"

const c0 = int8(7) / int16(2)

func main() {
	fmt.Printf("%T %v\n", c0, c0)
}
