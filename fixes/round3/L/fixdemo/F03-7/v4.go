package main

import "fmt"

func main() {
	fmt.Print()
	c := float32(7) / int(2); fmt.Println(c)
}
