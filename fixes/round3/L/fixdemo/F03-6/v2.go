package main

import "fmt"

var c0 = 'a' / 2

func main() {
	fmt.Printf("%T %v\n", c0, c0)
}
