package main

import "fmt"

const c0 = 2 / 'a'

func main() {
	fmt.Printf("%T %v\n", c0, c0)
}
