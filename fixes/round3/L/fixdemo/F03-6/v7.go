package main

import "fmt"

func main() {
	fmt.Print()
	x := 'a' / 2; r := 'b'; fmt.Printf("%T %v %T %v\n", x, x, r/2, r/2)
}
