package main

import "fmt"

const c0 int = 'a' / 2

func main() {
	fmt.Printf("%T %v\n", c0, c0)
}
