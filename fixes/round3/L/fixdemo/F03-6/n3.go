package main

import "fmt"

const c0 = 10 / 4

func main() {
	fmt.Printf("%T %v\n", c0, c0)
}
