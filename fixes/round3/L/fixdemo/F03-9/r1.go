package main

import "fmt"

const c0 = 1 << 600 >> 599

func main() {
	fmt.Printf("%T %v\n", c0, c0)
}
