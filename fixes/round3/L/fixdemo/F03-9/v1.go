package main

import "fmt"

func main() {
	fmt.Print()
	const c = 1 << 600 >> 599; fmt.Println(c)
}
