package main

import "fmt"

func main() {
	fmt.Print()
	fmt.Println(1 << int(-1))
}
