package main

import "fmt"

func main() {
	fmt.Print()
	fmt.Println(-(1<<512) >> 510)
}
