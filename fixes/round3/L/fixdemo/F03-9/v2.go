package main

import "fmt"

func main() {
	fmt.Print()
	const c = 1 << 1075 >> 1074; fmt.Println(c)
}
