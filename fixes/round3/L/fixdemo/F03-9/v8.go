package main

import "fmt"

func main() {
	fmt.Print()
	const big = 1 << 500; fmt.Println((big * big) / big / big)
}
