package main

import "fmt"

func main() {
	fmt.Print()
	var c = (1 << 511) * 2 / (1 << 510); fmt.Println(c)
}
