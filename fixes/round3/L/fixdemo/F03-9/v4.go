package main

import "fmt"

func main() {
	fmt.Print()
	const c = (1<<300) * (1<<300) >> 590; fmt.Println(c)
}
