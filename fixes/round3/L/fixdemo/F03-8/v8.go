package main

import "fmt"

func main() {
	fmt.Print()
	fmt.Println(uint(float32(-1)))
}
