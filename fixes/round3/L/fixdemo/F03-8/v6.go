package main

import "fmt"

func main() {
	fmt.Print()
	fmt.Println(int(float64(1e30)))
}
