package main

import "fmt"

func main() {
	fmt.Print()
	fmt.Println(float32(float64(1e300)))
}
