package main

import "fmt"

func main() {
	fmt.Print()
	x := []int{1,2,3}; fmt.Println(x[int8(int16(300))])
}
