package main

import (
	"fmt"
	"math"
	"time"
	"unsafe"
)

type T uint8
type D time.Duration

const (
	k16 int16   = 100
	f64 float64 = 3.0
	u64 uint64  = 1 << 63
)

const (
	a = int8(int16(100))
	b = int(float64(1.5) + 1.5)
	c = uint8(int8(127))
	d = int32(k16)
	e = float32(float64(0.1))
	f = int(f64)
	g = T(int(255))
	h = uint(float32(16))
	i = float64(int64(9007199254740993))
	j = float32(int32(16777217))
	k = string(rune(65)) + string(int32(66))
	l = time.Duration(int64(5)) * time.Second
	m = D(time.Minute)
	n = uint64(u64)
	o = int64(uint64(1<<63 - 1))
	p = uintptr(unsafe.Sizeof(int32(0)))
	q = int(unsafe.Sizeof(int64(0)))
	r = float64(time.Second)
	s = int(time.Millisecond)
	t = uint32(int64(math.MaxUint32))
	u = complex128(complex(float32(1), 2))
	v = float64(float32(1) / 3)
	w = int8(-int16(128))
	y = string("abc")
)

func main() {
	fmt.Println(a, b, c, d, e, f, g, h, i, j, k, l, time.Duration(m), n, o, p, q, r, s, t, u, v, w, y)
	x16, xf := int16(300), 1.5
	fmt.Println(int8(x16), int(xf+2), uint8(int8(x16)), float32(xf*1e300), int(float32(xf)), uint8(x16+int16(1)))
	var i64 int64 = math.MaxInt64
	fmt.Println(int32(i64), uint64(i64), float32(i64), int8(int16(i64)))
	fmt.Println([]byte(string("hi")), []rune("héllo"), string([]byte{65}), interface{}(int8(int16(100))))
}
