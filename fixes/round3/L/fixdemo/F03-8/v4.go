package main

import "fmt"

func main() {
	fmt.Print()
	const k int64 = 1 << 40; var x = int32(k); fmt.Println(x)
}
