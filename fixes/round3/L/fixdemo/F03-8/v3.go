package main

import "fmt"

func main() {
	fmt.Print()
	fmt.Println(uint8(int8(-1)))
}
