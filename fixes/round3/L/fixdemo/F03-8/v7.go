package main

import "fmt"

func main() {
	fmt.Print()
	type T uint8; fmt.Println(T(int(256)))
}
