package main

import "fmt"

const c0 = int8(int16(300))

func main() {
	fmt.Printf("%T %v\n", c0, c0)
}
