package main

import "fmt"

func main() {
	fmt.Print()
	const f float32 = 2.5; fmt.Println(int(f))
}
