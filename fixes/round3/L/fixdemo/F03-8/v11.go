package main

import "fmt"

func main() {
	fmt.Print()
	fmt.Println(float64(complex(float64(1), 2)))
}
