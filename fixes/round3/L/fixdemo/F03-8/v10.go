package main

import "fmt"

func main() {
	fmt.Print()
	fmt.Println(int64(uint64(1<<63)))
}
