package main

import "fmt"

func main() {
	fmt.Print()
	fmt.Println(int(float64(1.5) + 2))
}
