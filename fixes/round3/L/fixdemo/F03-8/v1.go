package main

import "fmt"

func main() {
	fmt.Print()
	const c = int8(int16(300)); fmt.Println(c)
}
