package main

import "fmt"

type T int8

const (
	a int8    = 100 + 27
	b uint8   = 256 - 1
	c int     = 7.0 / 3.5
	d float64 = 7 / 2
	e float32 = 1e38 * 3
	f int     = (7.0 / 2.0) * 2
	g uint64  = 1<<64 - 1
	h int64   = -(1 << 63)
	i T       = -64 * 2
	j rune    = 'a' + 1
	k byte    = 'a' - 'A'
	l complex64 = (1 + 2i) * 2
	m float64 = 1 << 62
	n int     = 1e3 * 1e3
	o uint8   = ^0 & 0xff
	p uint8   = +255
	q int8    = -(128)
	r string  = "a" + "b"
	s bool    = !false
)

var (
	va int8    = 100 + 27
	vb uint8   = 256 - 1
	vc int     = 7.0 / 3.5
	vd float64 = 7 / 2
	ve int     = (7.0 / 2.0) * 2
	vf uint64  = 1<<64 - 1
	vg, vh uint8 = 200 + 55, 1 + 1
	vi interface{} = 1 << 40
	vj float32 = 1 / 3.0
	vk = [...]uint8{250 + 5, 2 * 3}
	vl = map[string]int8{"a": 100 + 27}
)

func f8(x uint8) uint8 { return x + (1 + 1) }

func main() {
	fmt.Println(a, b, c, d, e, f, g, h, i, j, k, l, m, n, o, p, q, r, s)
	fmt.Println(va, vb, vc, vd, ve, vf, vg, vh, vi, vj, vk, vl)
	var x uint8 = 255 - 0
	var y int8
	y = -127 - 1
	x, y = 100+100, 100+27
	z := x + (250 + 5)
	var w float64 = 1 << 3
	w = 1<<4 + 0.5
	fmt.Println(x, y, z, w, f8(254+1), f8(x)+(200+55))
	var u uint = 1<<64 - 1
	var sh = 3
	var v uint8 = 1 << sh
	fmt.Println(u, v)
}
