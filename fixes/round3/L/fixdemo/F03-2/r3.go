package main

import "fmt"

const c int = 7.0 / 2.0

func main() {
	fmt.Printf("%T %v\n", c, c)
}
