package main

import "fmt"

func main() {
	fmt.Print()
	var c uint8 = 100 - 101; fmt.Println(c)
}
