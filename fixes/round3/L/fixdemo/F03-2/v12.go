package main

import "fmt"

var c0 uint8 = -(1)

func main() {
	fmt.Printf("%T %v\n", c0, c0)
}
