package main

import "fmt"

func main() {
	fmt.Print()
	type T int8; var c T = 64 * 2; fmt.Println(c)
}
