package main

import "fmt"

func main() {
	fmt.Print()
	var c float32 = 1e38 * 10; fmt.Println(c)
}
