package main

import "fmt"

func main() {
	fmt.Print()
	var c int32 = -(1 << 31) - 1; fmt.Println(c)
}
