package main

import "fmt"

var c0 uint8 = 100 - 101

func main() {
	fmt.Printf("%T %v\n", c0, c0)
}
