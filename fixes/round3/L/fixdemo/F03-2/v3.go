package main

import "fmt"

func main() {
	fmt.Print()
	const c int = 7.0 / 2.0; fmt.Println(c)
}
