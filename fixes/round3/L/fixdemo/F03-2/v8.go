package main

import "fmt"

func main() {
	fmt.Print()
	var a, b uint8 = 1, 255 + 1; fmt.Println(a, b)
}
