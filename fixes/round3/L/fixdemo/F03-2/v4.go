package main

import "fmt"

func main() {
	fmt.Print()
	var c uint16; c = 1 << 16; fmt.Println(c)
}
