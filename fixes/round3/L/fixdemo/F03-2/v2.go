package main

import "fmt"

func main() {
	fmt.Print()
	const c int8 = 100 + 900; fmt.Println(c)
}
