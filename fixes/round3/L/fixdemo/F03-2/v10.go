package main

import "fmt"

func main() {
	fmt.Print()
	var c uint = ^0; fmt.Println(c)
}
