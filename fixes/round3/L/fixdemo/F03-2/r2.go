package main

import "fmt"

const c int8 = 100 + 900

func main() {
	fmt.Printf("%T %v\n", c, c)
}
