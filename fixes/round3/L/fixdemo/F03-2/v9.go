package main

import "fmt"

func main() {
	fmt.Print()
	var c int = (1 << 62) * 2; fmt.Println(c)
}
