package main

import "fmt"

func main() {
	fmt.Print()
	var c int = 1 + 0.5; fmt.Println(c)
}
