package main

import "fmt"

const c0 = float32(3e38) * 10

func main() {
	fmt.Printf("%T %v\n", c0, c0)
}
