package main

import "fmt"

func main() {
	fmt.Print()
	fmt.Println(float64(1) / float64(0))
}
