package main

import "fmt"

const c0 = int(float64(1e30))

func main() {
	fmt.Printf("%T %v\n", c0, c0)
}
