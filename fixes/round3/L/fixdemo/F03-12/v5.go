package main

import "fmt"

func main() {
	fmt.Print()
	fmt.Println(float32(-3e38) - float32(3e38))
}
