package main

import "fmt"

func main() {
	fmt.Print()
	const z = float64(0); fmt.Println(1 / z)
}
