package main

import "fmt"

func main() {
	fmt.Print()
	fmt.Println(float32(1) / 0)
}
