package main

import "fmt"

func main() {
	fmt.Print()
	const c = float32(3e38) * 10; fmt.Println(c)
}
