package main

import "fmt"

const c0 = float64(1)/float64(0)

func main() {
	fmt.Printf("%T %v\n", c0, c0)
}
