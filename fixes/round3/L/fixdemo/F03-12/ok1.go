package main

import (
	"fmt"
	"math"
)

const (
	a = float32(3e38) / 10
	b = float64(math.MaxFloat64) / 2 * 2
	c = float32(math.MaxFloat32) * 1
	d = float32(1e-45) / 1e10
	e = float64(1) / 3 * 3
	f = -float32(math.MaxFloat32)
	g = float32(0.1) + float32(0.2)
	h = float64(0) / 1
	i = float32(1<<24) + 1
)

func main() {
	fmt.Println(a, b, c, d, e, f, g, h, i)
	z, o := 0.0, 1.0
	fmt.Println(o/z, -o/z, float32(3e38)*float32(o*10), math.Inf(1)+1, o/float64(1<<62))
	var f32 float32 = 3e38
	f32 *= 10
	fmt.Println(f32, math.IsNaN(z/z))
}
