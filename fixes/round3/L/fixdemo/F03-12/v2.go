package main

import "fmt"

func main() {
	fmt.Print()
	fmt.Println(float64(1e308) * 10)
}
