package main

import "fmt"

func main() {
	fmt.Print()
	fmt.Println(complex128(1) / complex128(0))
}
