package main

import "fmt"

func main() {
	fmt.Print()
	fmt.Println(complex(float32(3e38), 0) * 10)
}
