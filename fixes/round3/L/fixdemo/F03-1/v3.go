package main

import "fmt"

func main() {
	fmt.Print()
	c := -uint32(1); fmt.Println(c)
}
