package main

import "fmt"

func main() {
	fmt.Print()
	type T uint16; const c = T(65535) + 1; fmt.Println(c)
}
