package main

import "fmt"

const c0 = int8(100) + int8(100)

func main() {
	fmt.Printf("%T %v\n", c0, c0)
}
