package main

import "fmt"

const c0 = int64(1) << 63

func main() {
	fmt.Printf("%T %v\n", c0, c0)
}
