package main

import (
	"fmt"
	"math"
	"time"
	"unsafe"
)

type Flag uint8

const (
	A Flag = 1 << iota
	B
	C
	All = A | B | C
	None = All &^ All
)

const (
	a = int8(100) + int8(27)
	b = int8(-100) - int8(28)
	c = uint8(255) - uint8(255)
	d = ^uint8(1)
	e = ^int8(1)
	f = -int8(127)
	g = +uint16(65535)
	h = int64(1) << 62
	i = uint64(1) << 63
	j = int32(-1) << 31
)

const (
	l  = ^uint(0) >> 63
	m  = ^uintptr(0)
	n  = uint32(1)<<31 | 1
	o  = int16(300) * 100
	p  = float32(3e38) / 10
	q  = float64(1e308) * 1.5
	r  = float32(1) / 3
	s  = complex(float32(1), 2) * 2
	t  = complex(1.0, 0) / (1 + 1i)
	u  = int8(-128) / 1
	v  = int8(-128) % -1
	w  = uint8(200) &^ 0xf
	x  = uint8(200) ^ 0xff
	y  = time.Second * 90
	z  = 2*time.Hour + 30*time.Minute
	aa = time.Duration(1.5 * float64(time.Second))
	ab = math.MaxInt64 - int64(1)
	ac = uint64(math.MaxUint64) - 1
	ad = -(-int8(127))
	ae = int8(1) << 6
	af = int8(-1) >> 7
	ag = uint8(128) >> 7 << 7
	ah = unsafe.Sizeof(int64(0)) * 8
	ai = float32(16777216.0) + 1
	aj = float64(0.1) + 0.2
	ak = (int8(100) - 1) + 28
	al = 100 + int8(27)
	am = -float32(1.5)
	ao = "a" + "b"
	ap = string("a") + "b"
	aq = !true
	ar = !bool(false)
)

var (
	va uint8   = 255
	vb         = uint8(250) + 5
	vc int8    = -128
	vd         = int64(math.MinInt64) + 1
	ve         = []uint8{uint8(1) << 7, ^uint8(0)}
	vf float32 = float32(1e38) * 3
	vg         = map[int8]int8{int8(1) + 1: int8(63) * 2}
	vh         = [uint8(2) * 2]int{}
)

func main() {
	fmt.Println(A, B, C, All, None)
	fmt.Println(a, b, c, d, e, f, g, h, i, j)
	fmt.Println(l, m, n, o, p, q, r, s, t, u, v, w, x, y, z)
	fmt.Println(aa, ab, uint64(ac), ad, ae, af, ag, ah, ai, aj, ak, al, am, ao, ap, aq, ar)
	fmt.Println(va, vb, vc, vd, ve, vf, vg, len(vh))
	va++
	vc--
	vb += 10
	x1 := uint8(200)
	x1 += 100
	x2 := int8(100)
	x2 *= 2
	fmt.Println(va, vc, vb, x1, x2, x1+uint8(200), -x1, ^x1, x1<<4, x2<<7)
	const lc = uint16(1)<<15 + uint16(1)<<14
	var ld = uint8(15) * 17
	fmt.Printf("%T %v %T %v\n", lc, lc, ld, ld)
	var h32 uint32 = 2166136261
	h32 *= 16777619
	h32 = h32 * uint32(16777619)
	fmt.Println(h32, uint32(2166136261)*uint32(h32))
	for i := uint8(250); i > 5; i += uint8(1) + 1 {
		fmt.Print(i, " ")
	}
	fmt.Println()
}
