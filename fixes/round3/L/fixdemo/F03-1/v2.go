package main

import "fmt"

func main() {
	fmt.Print()
	var c = uint8(200) * 2; fmt.Println(c)
}
