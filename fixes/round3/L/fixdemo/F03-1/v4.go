package main

import "fmt"

func main() {
	fmt.Print()
	fmt.Println(int64(1) << 63)
}
