package main

import "fmt"

func main() {
	fmt.Print()
	fmt.Println(uint8(1) - 2)
}
