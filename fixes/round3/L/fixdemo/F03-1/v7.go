package main

import "fmt"

func main() {
	fmt.Print()
	var a [4]int; fmt.Println(a[uint8(255)+1])
}
