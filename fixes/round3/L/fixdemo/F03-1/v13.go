package main

import "fmt"

func main() {
	fmt.Print()
	fmt.Println(uint8(255) | 256)
}
