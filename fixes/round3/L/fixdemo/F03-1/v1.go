package main

import "fmt"

func main() {
	fmt.Print()
	const c = int8(100) + int8(100); fmt.Println(c)
}
