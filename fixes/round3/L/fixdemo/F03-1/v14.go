package main

import "fmt"

func main() {
	fmt.Print()
	var x int8 = (100 + 27) + int8(1); fmt.Println(x)
}
