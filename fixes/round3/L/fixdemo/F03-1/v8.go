package main

import "fmt"

func main() {
	fmt.Print()
	x := 1; fmt.Println(x + (int(9223372036854775807) + 1))
}
