package main

import "fmt"

func main() {
	fmt.Print()
	fmt.Println(int8(1) << 100000000000)
}
