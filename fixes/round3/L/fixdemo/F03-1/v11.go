package main

import "fmt"

func main() {
	fmt.Print()
	fmt.Println(uint32(1) << 32)
}
