package main

import "fmt"

func main() {
	fmt.Print()
	x := 2; fmt.Println(uint8(0) << 5000 + 1, int8(-1) >> 100000000000, x << 100000000000)
}
