package main

import "fmt"

func main() {
	fmt.Print()
	fmt.Println(-int8(-128))
}
