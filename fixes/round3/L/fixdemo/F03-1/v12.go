package main

import "fmt"

func main() {
	fmt.Print()
	const big = int32(1) << 30; fmt.Println(big * 2)
}
