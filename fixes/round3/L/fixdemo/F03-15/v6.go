package main

import "fmt"

func main() {
	fmt.Print()
	const s string = "abc"; fmt.Println(uint8(len(s) - 4))
}
