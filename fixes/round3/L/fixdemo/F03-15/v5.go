package main

import "fmt"

func main() {
	fmt.Print()
	fmt.Println(10 / (len("ab") - 2))
}
