package main

import "fmt"

func main() {
	fmt.Print()
	var c int8 = 1 << (len("abcdefg")); fmt.Println(c)
}
