package main

import "fmt"

var c = uint64(-1 << len("ab"))

func main() {
	fmt.Printf("%T %v\n", c, c)
}
