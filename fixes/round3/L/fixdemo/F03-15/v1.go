package main

import "fmt"

func main() {
	fmt.Print()
	var c = uint64(-1 << len("ab")); fmt.Println(c)
}
