package main

import "fmt"

func main() {
	fmt.Print()
	const s = "abc"; var c = uint8(100 * len(s)); fmt.Println(c)
}
