package main

import "fmt"

func main() {
	fmt.Print()
	var a [2]int; fmt.Println(a[len("ab")])
}
