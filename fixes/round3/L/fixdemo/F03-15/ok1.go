package main

import (
	"fmt"
	"os"
	"time"
)

const s = "héllo"
const ts string = "typed"

var gs = "global"
var gl = len("abc") + len(s)
var arr [len("abcd")]int

func main() {
	v := "variable"
	fmt.Println(len("ab"), len(s), len(ts), len(gs), len(v), len(v+"x"), len("a"+"bc"), len(time.RFC3339), len(os.Args) > 0, gl, len(arr))
	var a [4]int
	a[len("ab")] = 7
	x := uint8(len("ab") << 6)
	y := 1 << len("abc")
	var z float64 = 1 << len("ab")
	fmt.Println(a, x, y, z, a[len(s)-4], 10/len("ab"), -1<<len("ab"), uint8(3*len(ts)))
	for i := 0; i < len("abc"); i++ {
		fmt.Print(i, len(v[:i]))
	}
	fmt.Println()
	gs = "changed!"
	v += "more"
	fmt.Println(len(gs), len(v), len([]byte("ab")), len([]rune(s)), len(fmt.Sprint(12)))
	fmt.Printf("%T %v\n", len("ab"), len("ab"))
	var i interface{} = len("abc")
	fmt.Println(i)
	b := []byte("abc")
	fmt.Println(b[len("ab")], cap(b[:len("a")]) >= 1)
}
