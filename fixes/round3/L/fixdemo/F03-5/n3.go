package main

import "fmt"

var c0 = string('a')

func main() {
	fmt.Printf("%T %v\n", c0, c0)
}
