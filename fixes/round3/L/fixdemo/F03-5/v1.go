package main

import "fmt"

var c0, c1 = 'a', 'b' + 1

func main() {
	fmt.Printf("%T %v\n", c0, c1, c1, c0, c1, c1)
}
