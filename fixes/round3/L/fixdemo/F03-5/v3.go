package main

import "fmt"

var c0 = -'a'

func main() {
	fmt.Printf("%T %v\n", c0, c0)
}
