package main

import "fmt"

const k = 'x'
var c0 = k

func main() {
	fmt.Printf("%T %v\n", c0, c0)
}
