package main

import "fmt"

var g = 'z'

func f(r rune) rune { return r + 1 }

func main() {
	l := 'a'
	var m = '\n'
	fmt.Printf("%T %T %T %v %v\n", g, l, m, f(g), f('q'))
	var i interface{} = 'c'
	switch i.(type) {
	case int32:
		fmt.Println("int32")
	case int:
		fmt.Println("int")
	}
}
