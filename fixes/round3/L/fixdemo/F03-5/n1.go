package main

import "fmt"

var c0 = 97

func main() {
	fmt.Printf("%T %v\n", c0, c0)
}
