package main

import "fmt"

var c0 = map[rune]int{'a': 1}['a']

func main() {
	fmt.Printf("%T %v\n", c0, c0)
}
