#!/bin/bash
# usage: mkf.sh <id> <name> '<statements inside main>'   (fmt is imported and used)
d=/tmp/fixwt3-L/fixdemo/$1; mkdir -p $d
cat > $d/$2.go <<EOM
package main

import "fmt"

func main() {
	fmt.Print()
	$3
}
EOM
