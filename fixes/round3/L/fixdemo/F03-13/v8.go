package main

import "fmt"

func main() {
	fmt.Print()
	x := 8; fmt.Println(x >> float32(2))
}
