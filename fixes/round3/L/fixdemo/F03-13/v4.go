package main

import "fmt"

func main() {
	fmt.Print()
	fmt.Println(8 >> "a")
}
