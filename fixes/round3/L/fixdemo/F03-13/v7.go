package main

import "fmt"

func main() {
	fmt.Print()
	fmt.Println(1 << float64(2000))
}
