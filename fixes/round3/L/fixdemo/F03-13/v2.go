package main

import "fmt"

func main() {
	fmt.Print()
	f := float32(2); fmt.Println(8 >> f)
}
