package main

import "fmt"

func main() {
	fmt.Print()
	fmt.Println(8 >> float32(2.5))
}
