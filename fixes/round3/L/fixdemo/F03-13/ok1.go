package main

import "fmt"

const (
	a = 8 >> float32(2)
	b = 1 << float64(10)
	c = int8(1) << float32(3)
	d = 8 >> 2.0
	e = uint8(255) >> float64(7)
)

const fc float32 = 3

func main() {
	x := 64
	fmt.Println(a, b, c, d, e, 64>>float32(2), 64<<float64(1), 64>>fc, 1<<fc, x>>2.0, x<<uint8(2), x>>int64(1))
	var y uint8 = 1
	y <<= 2
	s := uint(3)
	fmt.Println(y, y<<s, 1<<s, int32(1)<<s)
}
