#!/bin/bash
# usage: mk.sh <id> <name> '<package-level decls>' '<println args>'   (writes fixdemo/<id>/<name>.go)
d=/tmp/fixwt3-L/fixdemo/$1; mkdir -p $d
cat > $d/$2.go <<EOM
package main

import "fmt"

$3

func main() {
	fmt.Printf("%T %v\n", $4, $4)
}
EOM
