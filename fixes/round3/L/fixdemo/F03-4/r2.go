package main

import "fmt"

const c0 = "a" / "b"

func main() {
	fmt.Printf("%T %v\n", c0, c0)
}
