package main

import "fmt"

const ( c = int16(iota/13 >> 205) - 63<<46 )

func main() {
	fmt.Printf("%T %v\n", c, c)
}
