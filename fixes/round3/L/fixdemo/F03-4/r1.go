package main

import "fmt"

const c0 = int(1) / int(0)

func main() {
	fmt.Printf("%T %v\n", c0, c0)
}
