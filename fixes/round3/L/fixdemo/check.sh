#!/bin/bash
# usage: check.sh <yaegi-binary> <file.go>...
# compares `go run` with the interpreter: same stdout when go compiles, a clean error (no Go panic) when go rejects.
export GOFLAGS=-mod=mod GOPROXY=off GOSUMDB=off GOTOOLCHAIN=local
Y="$1 -unsafe"; shift
rc=0
for f in "$@"; do
  d=$(mktemp -d)
  cp "$f" $d/main.go
  (cd $d && cat > go.mod <<EOM
module demo
go 1.23
EOM
  go run main.go > go.out 2> go.err; echo $? > go.rc)
  $Y "$f" > $d/y.out 2> $d/y.err; echo $? > $d/y.rc
  grc=$(cat $d/go.rc); yrc=$(cat $d/y.rc)
  if [ $grc -ne 0 ] && ! grep -q '^panic:\|^goroutine ' $d/go.err; then
    # go rejects
    if [ $yrc -eq 0 ]; then echo "DIFF $f: go rejects ($(grep -v '^#' $d/go.err | head -1)), yaegi accepts: $(head -c 200 $d/y.out)"; rc=1
    elif grep -q 'goroutine \|^panic: ' $d/y.err; then echo "PANIC $f: go rejects, yaegi panics: $(grep -m1 'panic' $d/y.err)"; rc=1
    else echo "ok(reject) $f: go: $(grep -v '^#' $d/go.err | head -1 | cut -c1-90) | yaegi: $(head -1 $d/y.err | cut -c1-90)"; fi
  else
    if [ $yrc -ne 0 ]; then echo "DIFF $f: go accepts ($(head -c 100 $d/go.out)), yaegi fails: $(head -2 $d/y.err | cut -c1-160)"; rc=1
    elif ! cmp -s $d/go.out $d/y.out; then echo "DIFF $f: go: $(head -c 150 $d/go.out | tr '\n' '|') yaegi: $(head -c 150 $d/y.out | tr '\n' '|')"; rc=1
    else echo "ok(same) $f: $(head -c 100 $d/go.out | tr '\n' '|')"; fi
  fi
  rm -rf $d
done
exit $rc
