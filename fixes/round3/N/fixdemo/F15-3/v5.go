package main

import "fmt"

type I interface{ M() int }
type A int

func (a A) M() int { return int(a) + base }

// interface typed list: the conversions are applied to each value
var p, q I = A(1), A(2)
var base, r = 10, p.M() + q.M()
var e1, e2 error = nil, fmt.Errorf("e%d", base)

func main() { fmt.Println(p.M(), q.M(), base, r, e1, e2) }
