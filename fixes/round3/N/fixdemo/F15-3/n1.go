package main

import "fmt"

// negative: the same lists inside a function are evaluated as a whole (swap, shadowing).
var a, b = 1, 2

func main() {
	var a, b = b, a
	fmt.Println(a, b)
	var x, y int = a + 1, b + 1
	x, y = y, x
	var (
		p, q = x, y
	)
	c, d := q, p
	fmt.Println(x, y, p, q, c, d)
}
