package main

import "fmt"

func g(x int) int { fmt.Println("g"); return x + 1 }
func h() int      { fmt.Println("h"); return 7 }
func k(x int) int { fmt.Println("k"); return x * 2 }

var a, b = g(c), h()
var c = k(b)

func main() { fmt.Println(a, b, c) }
