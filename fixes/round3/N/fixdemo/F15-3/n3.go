package main

import "fmt"

// negative: a list without values, and a single multi-value call, are unchanged.
func two() (string, string) { return "s", "t" }

var a, b int
var s, t string = two()
var (
	x, y, z float64
	m, n    = 1, 2
)

func main() { fmt.Println(a, b, s, t, x, y, z, m, n) }
