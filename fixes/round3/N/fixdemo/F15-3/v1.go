package main

import "fmt"

func tr(s string, v int) int { fmt.Println(s); return v }

// the two initializers are separated by another variable
var a, b = tr("a", m+1), tr("b", 2)
var m = tr("m", b*10)

func main() { fmt.Println(a, b, m) }
