package main

import "fmt"

// function values and untyped constants in lists
var s1, f = side("first"), func() int { return k }
var k, s2 = 3, side("second")
var i, fl, s = 1, 2.5, "s"

func side(s string) int { fmt.Println(s); return 0 }

func main() { fmt.Println(f(), k, i, fl, s, s1, s2) }
