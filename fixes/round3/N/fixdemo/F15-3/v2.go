package main

import "fmt"

// a variable of the list depends on another one of the same list
var a, b = 1, a + 1
var c, d = d * 2, b + 1

func main() { fmt.Println(a, b, c, d) }
