package main

import "fmt"

// a real cycle through a list is still rejected
var a, b = c, 1
var c = a + b

func main() { fmt.Println(a, b, c) }
