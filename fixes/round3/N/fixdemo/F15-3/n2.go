package main

import "fmt"

// negative: lists of constants are unchanged.
const c1, c2 = 1, "two"
const (
	k0 = iota
	k1
	k2
)
const j0, j2 = k0 * 10, k2 * 10

var u, v = c1 + k2, c2 + fmt.Sprint(j2)
var arr = [...]int{k0: 1, k2: 3}

func main() { fmt.Println(c1, c2, k0, j0, k1, k2, j2, u, v, arr) }
