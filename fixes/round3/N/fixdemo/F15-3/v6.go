package main

import "fmt"

// blank names in the list (needs fix-F15-4 as well: the blank identifier as a dependency)
var _, f = side("first"), func() int { return k }
var k, _ = 3, side("second")
var i, fl, s = 1, 2.5, "s"

func side(s string) int { fmt.Println(s); return 0 }

func main() { fmt.Println(f(), k, i, fl, s) }
