package main

import "fmt"

type T struct{ s string }

func tr(s string) string { fmt.Println(s); return s }

// typed list, three names, in a parenthesized declaration
var (
	x, y, z string = tr("x") + z, tr("y") + w, tr("z")
	w              = tr("w") + z
	t, u    *T     = &T{x}, nil
)

func main() { fmt.Println(x, y, z, w, t.s, u == nil) }
