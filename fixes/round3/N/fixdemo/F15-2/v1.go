package main

import "fmt"

func two() (string, int) { return "ab", 3 }

var s, n = two()

func rep(k int) string {
	if k == 0 {
		return ""
	}
	return s + rep(k-1)
}

func outer() string { return inner() }
func inner() string { return rep(n) }

func main() { fmt.Println(outer(), len(outer()) == n*len(s)) }
