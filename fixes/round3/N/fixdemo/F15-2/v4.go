package main

import "fmt"

func two() (int, int) { return 1, 2 }

var a, b = two()

func set(x, y int) { a, b = x, y }
func get() (int, int) { return a, b }
func incr() {
	a++
	b += a
}

func main() {
	set(10, 20)
	incr()
	x, y := get()
	fmt.Println(x, y, a, b)
	p := &b
	*p = 0
	fmt.Println(get())
}
