package main

import "fmt"

func three() (a, b, c int) { return 1, 2, 3 }

var x, y, z = three()
var total = sum(x)

func sum(first int) int { return first + rest() }
func rest() int         { return y + last() }
func last() int         { return z }

func main() { fmt.Println(total, sum(0)) }
