package main

import (
	"fmt"
	"strconv"
)

var n, err = strconv.Atoi("12")

func check() bool { return err == nil }
func twice() int {
	f := func() int { return n * 2 }
	return f()
}
func deep() int { return func() int { return func() int { return twice() + n }() }() }

func main() { fmt.Println(check(), twice(), deep()) }
