package main

import "fmt"

type T struct{ k int }

func mk() (*T, map[string]int) { return &T{5}, map[string]int{"a": 1} }

var t, m = mk()

func (x *T) sum() int { return x.k + m["a"] + t.k }
func viaMethod() int   { return t.sum() }

var d = viaMethod()

func main() { fmt.Println(d, t.k, m) }
