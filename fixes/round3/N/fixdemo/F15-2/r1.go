package main

import "fmt"

func two() (int, int) { return 10, 20 }

var p, q = two()
var d = g(p)

func f() int { return 1 + q }
func g(x int) int { return x + 1 + p + f() }

func main() { fmt.Println(p, q, d) }
