package main

import "fmt"

func two() (int, float64) { return 4, 0.5 }

var i, f = two()

func work(ch chan float64, k int) { ch <- float64(i*k) + f }

func main() {
	ch := make(chan float64)
	for k := 0; k < 3; k++ {
		go work(ch, k)
	}
	s := 0.0
	for k := 0; k < 3; k++ {
		s += <-ch
	}
	defer func() { fmt.Println("deferred", i, f) }()
	fmt.Println(s)
}
