package main

import "fmt"

// negative: a table filled by init and read by its own handlers is not a cycle.
var cmds map[string]func() int

func init() { cmds = map[string]func() int{"help": help, "n": count} }

func help() int  { return len(cmds) }
func count() int { return total + len(cmds) }

var total = compute()

func compute() int { return 3 }

func main() { fmt.Println(cmds["help"](), cmds["n"](), total) }
