package main

import "fmt"

type S struct {
	name string
	f    func() int
}

var s = S{name: "s", f: f}
var r = s.f()
var b = 40

func f() int { return b + 2 }

var m = map[string]int{"k": g()}

func g() int { return r + 1 }

func main() { fmt.Println(s.name, r, b, m) }
