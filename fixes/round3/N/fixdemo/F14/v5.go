package main

import "fmt"

type T struct{ s string }

func (t *T) get() string { return t.s + sep }
func (t T) val() string  { return sep + t.s }

var a = (&T{"x"}).get()
var c = T.val(T{"y"})
var d = (*T).get(&T{"z"})
var sep = mk()

func mk() string { fmt.Println("mk"); return "-" }

func main() { fmt.Println(a, c, d, sep) }
