package main

import "fmt"

var a = f()
var _ = tr("blank a")

func tr(s string) int { fmt.Println(s); return 0 }

func main() { fmt.Println(a, b, c) }
