package main

var b = g() + tr("b")
var _ = tr("blank b")

func f() int { return b + 1 }
func g() int { return c * 2 }

var c = 4 + tr("c")
