package main

import "fmt"

var a = func() []int { return append(f(), 1) }()
var b = []int{7, 8}

func f() []int { return b[:1] }

func main() { fmt.Println(a, b) }
