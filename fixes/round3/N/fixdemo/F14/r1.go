package main

import "fmt"

var a = f()
var b = 2

func f() int { return b + 1 }

func main() { fmt.Println(a, b) }
