package main

import "fmt"

func apply(fn func() string) string { return fn() + "!" }

var a = apply(f)
var b = "hello"

func f() string { return b }

func main() { fmt.Println(a, b) }
