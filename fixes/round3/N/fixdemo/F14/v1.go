package main

import "fmt"

type T struct{ n int }

func (t T) m() int { return b + t.n }

var a = t.m()
var b = 2
var t = T{n: b * 10}

func main() { fmt.Println(a, b, t) }
