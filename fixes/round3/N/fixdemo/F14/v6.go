package main

import "fmt"

var a = even(4)
var base = 10

func even(n int) bool {
	if n == 0 {
		return base == 10
	}
	return odd(n - 1)
}

func odd(n int) bool {
	if n == 0 {
		return false
	}
	return even(n - 1)
}

func fact(n int) int {
	if n <= 1 {
		return unit
	}
	return n * fact(n-1)
}

var x = fact(5)
var unit = 1

func main() { fmt.Println(a, base, x, unit) }
