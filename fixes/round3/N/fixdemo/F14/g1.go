package main

import "fmt"

// a generic function called inside a function reached from an initializer
func id[T any](v T) T { return v }

func viaGeneric() int { return id(b) + 1 }

var a = viaGeneric()
var b = 2

func main() { fmt.Println(a, b) }
