package main

import (
	"fmt"
	"strings"
	"sync"
)

// negative: host functions, methods of host types, and goroutines in initializers.
var wg sync.WaitGroup
var up = strings.ToUpper(name)
var name = "yaegi"
var r = strings.NewReplacer("a", "b")
var out = r.Replace(up)
var once = func() int {
	ch := make(chan int)
	wg.Add(1)
	go func() { defer wg.Done(); ch <- len(out) }()
	v := <-ch
	wg.Wait()
	return v
}()

func main() { fmt.Println(up, name, out, once) }
