package main

import "fmt"

// negative: a function using a local named like a later package variable.
var a = f()
var b = a + 1

func f() int {
	b := 5
	for a := 0; a < 2; a++ {
		b += a
	}
	return b
}

func main() { fmt.Println(a, b) }
