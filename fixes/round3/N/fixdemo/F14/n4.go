package main

import "fmt"

// negative: interface method calls and method values.
type I interface{ V() int }
type A struct{}
type B struct{ k int }

func (A) V() int { return 1 }
func (b B) V() int { return b.k + off }

var off = 100
var items = []I{A{}, B{2}}
var sum = total(items)
var mv = B{3}.V
var got = mv()

func total(l []I) (s int) {
	for _, i := range l {
		s += i.V()
	}
	return s
}

func main() { fmt.Println(off, sum, got) }
