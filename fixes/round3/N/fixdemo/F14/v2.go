package main

import "fmt"

func tr(s string, v int) int { fmt.Println("init", s, v); return v }

var a = tr("a", f())
var b = tr("b", 2)
var c = tr("c", 3)

func f() int { return g() + 1 }
func g() int { return h() * 2 }
func h() int { return c + b }

func main() { fmt.Println(a, b, c) }
