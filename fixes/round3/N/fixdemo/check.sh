#!/bin/bash
# usage: check.sh <yaegi binary> files...
# Compares `go run` with the interpreter. A program rejected by Go for an initialization cycle
# must be rejected by the interpreter with a definition loop.
export GOFLAGS=-mod=mod GOPROXY=off GOSUMDB=off GOTOOLCHAIN=local
Y=$1; shift
for f in "$@"; do
  g=$(go run $f 2>&1); y=$($Y run $f 2>&1)
  if [ "$g" == "$y" ]; then echo "SAME  $f"
  elif echo "$g" | grep -q "initialization cycle" && echo "$y" | grep -q "definition loop"; then echo "SAME  $f (both reject: cycle)"
  elif echo "$g" | grep -q "^# command-line-arguments" && echo "$y" | grep -q "^run: "; then echo "BOTH-REJECT $f"; echo "   go:    $(echo "$g" | sed -n 2p)"; echo "   yaegi: $(echo "$y" | head -1)"
  else echo "DIFF  $f"; echo "$g" | head -4 | sed 's/^/   go:    /'; echo "$y" | head -4 | sed 's/^/   yaegi: /'; fi
done
