package main

import "fmt"

// negative: multi-value definitions inside functions keep working (locals, redeclaration, shadowing of globals).
func two() (int, int) { return 1, 2 }

var a, b = two()

func f() (int, int) {
	a, b := two()
	a, c := two()
	return a + b, c
}

func g() int {
	x, y := two()
	func() { x, y = y, x }()
	return x*10 + y + a + b
}

func main() {
	p, q := f()
	fmt.Println(a, b, p, q, g())
	a, b = b, a
	fmt.Println(a, b, g())
}
