package main

import "fmt"

func two() (string, error) { fmt.Println("two"); return "s", nil }

var c = s + "!"
var s, err = two()

func main() { fmt.Println(c, s, err) }
