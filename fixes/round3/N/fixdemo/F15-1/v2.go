package main

import (
	"fmt"
	"strconv"
)

// host function returning two values
var double = n * 2
var n, err = strconv.Atoi(txt)
var txt = "21"

func main() { fmt.Println(double, n, err, txt) }
