package main

import "fmt"

func t(s string, v int) int { fmt.Println("init", s); return v }

func f(x int) (int, int) { fmt.Println("init a,b"); return x + 1, x + 2 }

var c = t("c", a)
var a, b = f(d)
var d = t("d", 5)

func main() { fmt.Println(a, b, c, d) }
