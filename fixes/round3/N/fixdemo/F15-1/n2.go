package main

import "fmt"

// negative: package variables of a multi-value declaration are shared by goroutines and closures.
func two() (int, []string) { return 7, []string{"x"} }

var n, l = two()

func add(s string) { l = append(l, s); n++ }

func main() {
	done := make(chan bool)
	go func() { add("y"); done <- true }()
	<-done
	inc := func() int { n++; return n }
	fmt.Println(inc(), n, l)
	p := &n
	*p = 100
	fmt.Println(n, len(l))
}
