package main

import "fmt"

type P struct{ x, y int }

func mk(k int) (*P, []int, bool) { fmt.Println("mk"); return &P{k, k + 1}, []int{k}, true }
func tr(s string, v int) int     { fmt.Println(s); return v }

var z = tr("z", p.x+l[0])
var p, l, ok = mk(k)
var k = tr("k", 4)
var w = tr("w", p.y)

func main() { fmt.Println(z, *p, l, ok, k, w) }
