package main

import "fmt"

// second name only, and blank first name
func f() (int, int) { fmt.Println("f"); return 1, 2 }
func g() (int, int) { fmt.Println("g"); return 3, 4 }

var c = b + d
var _, b = f()
var d, _ = g()

func main() { fmt.Println(b, c, d) }
