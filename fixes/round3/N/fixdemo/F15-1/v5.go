package main

import "fmt"

// typed multi-value declaration, and chain of two of them
func f(x int) (int, int)     { fmt.Println("f"); return x + 1, x + 2 }
func g() (int64, float64)    { fmt.Println("g"); return 5, 0.5 }
func h(v int64) (int, error) { fmt.Println("h"); return int(v) * 2, nil }

var a, b int = f(m)
var m, err = h(i)
var i, fl = g()

func main() { fmt.Println(a, b, m, err, i, fl) }
