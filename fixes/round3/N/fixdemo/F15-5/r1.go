package main

import "fmt"

func f() int      { fmt.Println("f"); return 1 }
func g() int      { fmt.Println("g"); return 2 }
func h(x int) int { fmt.Println("h"); return x }

var _ = f()
var a = g()
var _ = h(a)

func main() { fmt.Println(a) }
