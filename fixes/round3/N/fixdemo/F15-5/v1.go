package main

import "fmt"

func tr(s string, v int) int { fmt.Println(s); return v }

var _ = tr("1", 0)
var _ = tr("2", 0)
var _ = tr("3", 0)

func main() { fmt.Println("main") }
