package main

import "fmt"

func tr(s string, v int) int { fmt.Println(s); return v }

// a typed blank, a blank depending on a later variable
var _ int = tr("typed", 1)
var _ = tr("list", 2)
var c = tr("c", late)
var _ = tr("uses late", late)
var late = tr("late", 5)
var _ = tr("last", c)

func main() { fmt.Println(c, late) }
