package main

import "fmt"

func tr(s string, v int) int { fmt.Println(s); return v }

// blank specifications with and without dependencies, in a parenthesized declaration
var (
	_ = tr("x uses b", b)
	a = tr("a", 1)
	_ = tr("y", 0)
	b = tr("b uses a", a)
	_ = tr("z uses a", a)
)

func main() { fmt.Println(a, b) }
