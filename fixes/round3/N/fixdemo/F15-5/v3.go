package main

import "fmt"

type I interface{ M() }
type T struct{}

func (T) M() {}

func reg(s string, deps ...I) I { fmt.Println("register", s, len(deps)); return T{} }

// compile time assertions mixed with registrations (all the blanks have the type I)
var _ I = T{}
var _ = reg("one")
var _ I = reg("zero", two)
var two = reg("two")
var _ = reg("three", two, two)

func main() { fmt.Println(two) }
