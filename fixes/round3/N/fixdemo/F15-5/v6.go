package main

import "fmt"

func tr(s string, v int) int { fmt.Println(s); return v }

// a blank in a list (needs fix-F15-3 as well: one node per variable of a list)
var _ int = tr("typed", 1)
var _, c = tr("list", 2), tr("c", late)
var _ = tr("uses late", late)
var late = tr("late", 5)
var _ = tr("last", c)

func main() { fmt.Println(c, late) }
