package main

import "fmt"

func two(s string) (int, int) { fmt.Println(s); return 1, 2 }

// blank names in multi-value declarations
var _, _ = two("first")
var a, _ = two("second")
var _, b = two("third")
var _ = fmt.Sprint(a, b)

func main() { fmt.Println(a, b) }
