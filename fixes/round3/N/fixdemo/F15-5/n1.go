package main

import "fmt"

// negative: blanks in functions, in assignments and in range clauses.
var _ = fmt.Sprint("x")

func two() (int, int) { return 1, 2 }

func main() {
	_, b := two()
	var _ = b
	_ = b
	for _, v := range []int{1, 2} {
		_, _ = v, b
	}
	var _, c = two()
	fmt.Println(b, c)
}
