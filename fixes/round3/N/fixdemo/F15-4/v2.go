package main

import "fmt"

type T struct {
	b int
	c string
}

// field keys, nested composite literals, and field selection
var a = []T{{b: 1, c: "x"}, {b: 2}}
var b = a[1].b + len(m["k"].c)
var c = "pkg"
var m = map[string]T{"k": {c: c, b: 0}}

func main() { fmt.Println(a, b, c, m) }
