package main

import (
	"fmt"
	"strings"
)

// negative: selectors on packages, embedded fields, and a struct field initialized from a variable of the same name.
type Inner struct{ name string }
type Outer struct {
	Inner
	sep string
}

var o = Outer{Inner: Inner{name: name}, sep: sep}
var name = strings.Repeat("n", count)
var sep = "/"
var count = 2
var joined = strings.Join([]string{o.name, o.Inner.name}, o.sep)

func main() { fmt.Println(o, joined) }
