package main

import "fmt"

// negative: real references from inner scopes are still dependencies.
func tr(s string, v int) int { fmt.Println(s); return v }

var a = tr("a", func() int {
	x := b
	{
		b := x + c
		return b
	}
}())
var b = tr("b", 2)
var c = tr("c", 3)

func main() { fmt.Println(a, b, c) }
