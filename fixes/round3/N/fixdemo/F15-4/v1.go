package main

import "fmt"

// parameter and named result with the names of package variables
var a = func(b int) (c int) { c = b * 2; return }(4)
var b = a + 1
var c = b + 1

func main() { fmt.Println(a, b, c) }
