package main

import "fmt"

func tr(s string, v int) int { fmt.Println(s); return v }

// the order must not be changed by a shadowing local
var a = tr("a", func() int { z := 1; return z }())
var z = tr("z", 0)
var y = tr("y", func(z int) int { return z }(a))

func main() { fmt.Println(a, y, z) }
