package main

import "fmt"

type B struct{ next *B; val int }

// method with a receiver and locals named like package variables
func (head B) len() (n int) {
	for b := &head; b != nil; b = b.next {
		n++
	}
	return
}

var n = head.len()
var head = B{next: &B{val: b}, val: 1}
var b = 2

func main() { fmt.Println(n, head.val, head.next.val, b) }
