package main

import "fmt"

type T struct{ b int }

var a = T{b: 3}
var b = a.b + 1

func main() { fmt.Println(a, b) }
