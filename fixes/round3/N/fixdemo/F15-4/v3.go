package main

import "fmt"

// range and short variable declarations, labels, in a function literal
var a = func() (s int) {
	for b, c := range []int{5, 6} {
		s += b + c
	}
	if d := 3; d > 2 {
		s += d
	}
	return s
}()
var b, c, d = a + 1, a + 2, a + 3

func main() { fmt.Println(a, b, c, d) }
