package main

import "fmt"

var a = func() int { b := 3; return b + 1 }()
var b = a + 1

func main() { fmt.Println(a, b) }
