package main

import "fmt"

// a map literal key IS a reference, a struct key is not; type switch and closure captures
type P struct{ k, v int }

var m = map[int]string{k: "one"}
var k = 1
var p = P{k: 10, v: k}
var f = func(x interface{}) int {
	switch v := x.(type) {
	case int:
		return v
	}
	return -1
}(k)
var v = f + 1

func main() { fmt.Println(m, k, p, f, v) }
