#!/bin/bash
# usage: run.sh <yaegi binary>: feeds the REPL sessions; expected output in *.expected
# s2: fix-evaldeps alone; s1: also needs fix-F15-1 (x, y := two() read from function bodies)
# s3: works on the unpatched head, broken by fix-F15-1 WITHOUT fix-evaldeps, works with both
d=$(dirname $0)
for s in $d/*.txt; do $1 < $s > /tmp/fixwt3-N/_scratch/repl.out 2>&1; if diff -q /tmp/fixwt3-N/_scratch/repl.out ${s%.txt}.expected >/dev/null; then echo "SAME  $s"; else echo "DIFF  $s"; head -5 /tmp/fixwt3-N/_scratch/repl.out; fi; done
