package main

import "fmt"

// the result types are declared later too
var v, err = parse("12")

func parse(s string) (Val, error) {
	if s == "" {
		return Val{}, Err("empty")
	}
	return Val{len(s)}, nil
}

type Val struct{ n int }
type Err string

func (e Err) Error() string { return string(e) }

func main() { fmt.Println(v, err) }
