package main

import "fmt"

var p, q = two()

func two() (int, int) { return 10, 20 }

func main() { fmt.Println(p, q) }
