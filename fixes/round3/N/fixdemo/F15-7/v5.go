package main

import "fmt"

// three results, typed declaration, variadic callee, declared at the end of the file
var n, s, e = stats(1, 2, 3)
var lo, hi int = bounds()

func main() { fmt.Println(n, s, e, lo, hi) }

func bounds() (int, int) { return -1, 1 }

func stats(v ...int) (int, float64, error) {
	t := 0
	for _, x := range v {
		t += x
	}
	return len(v), float64(t) / float64(len(v)), nil
}
