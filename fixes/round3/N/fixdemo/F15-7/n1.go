package main

import "fmt"

// negative: callee declared before; host callee; in a function body
func two() (int, int) { return 1, 2 }

var a, b = two()
var s, err = fmt.Sscan("7", &a)

func main() {
	var c, d = two()
	e, f := later()
	fmt.Println(a, b, s, err, c, d, e, f)
}

func later() (string, bool) { return "l", true }
