package main

import "fmt"

// the callee is a variable of function type declared later, and a function literal
var a, b = fn(3)
var c, d = func() (int, int) { return helper(), 2 }()

var fn = func(n int) (int, bool) { return n * n, n > 2 }

func helper() int { return 1 }

func main() { fmt.Println(a, b, c, d) }
