package main

func two(n int) (int, int) { return n + 1, n + 2 }

func sum(x, y int) int { return x + y }

var late = 10
