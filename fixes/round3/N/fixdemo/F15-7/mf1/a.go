package main
// needs fix-F15-1 as well (p and q are dependencies of r only when they are global symbols)

import "fmt"

var p, q = two(late)
var r = sum(p, q)

func main() { fmt.Println(p, q, r, late) }
