package main

import "fmt"

// the callee is a method of a type and of a variable declared later
var a, b = t.pair()
var c, d = T.pair(T{2})

type T struct{ k int }

func (t T) pair() (int, string) { return t.k, fmt.Sprint("k", t.k) }

var t = T{1}

func main() { fmt.Println(a, b, c, d) }
