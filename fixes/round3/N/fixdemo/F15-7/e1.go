package main

import "fmt"

// errors are still reported: wrong number of variables
var a, b, c = two()

func two() (int, int) { return 1, 2 }

func main() { fmt.Println(a, b, c) }
