package main

import "fmt"

// errors are still reported: the function does not exist
var a, b = missing()

func main() { fmt.Println(a, b) }
