package main

import "fmt"

// chain: the arguments of the later function are results of another later function
var x, y = second(first())

func second(a int, s string) (string, int) { return s + "!", a * 2 }

var p, q = first()

func first() (int, string) { fmt.Println("first"); return 21, "s" }

func main() { fmt.Println(x, y, p, q) }
