package main

import "fmt"

// a function literal which refers to its own variable
var f = func(n int) int {
	if n == 0 {
		return 0
	}
	return f(n-1) + 1
}

func main() { fmt.Println(f(3)) }
