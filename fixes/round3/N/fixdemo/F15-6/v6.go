package main

import "fmt"

// self reference in a multi-value declaration (needs fix-F15-1 and fix-F15-7 as well)
var p, q = two()

func two() (int, int) { return q, 1 }

func main() { fmt.Println(p, q) }
