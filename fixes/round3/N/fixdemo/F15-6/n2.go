package main

import "fmt"

// negative: a variable used by a function which is not referenced by its initializer; a local with the same name; a field with the same name.
type T struct{ a int }

var a = T{a: 1}.a + func() int { a := 2; return a }()

func show() int { return a }

var b = 3

func useB() int { b := b; return b }

func main() { fmt.Println(a, show(), useB()) }
