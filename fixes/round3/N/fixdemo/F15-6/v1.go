package main

import "fmt"

// typed self reference
var a int = a

func main() { fmt.Println(a) }
