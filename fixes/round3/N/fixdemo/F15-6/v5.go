package main

import "fmt"

// cycle of three variables, one link through a function
var a = b + 1
var b = c + 1
var c = f()

func f() int { return a }

func main() { fmt.Println(a, b, c) }
