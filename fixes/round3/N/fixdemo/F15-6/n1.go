package main

import "fmt"

// negative: a recursive function, and a function literal recursive through a variable assigned in init, are not cycles.
var fib func(int) int

func init() {
	fib = func(n int) int {
		if n < 2 {
			return n
		}
		return fib(n-1) + fib(n-2)
	}
}

func fact(n int) int {
	if n < 2 {
		return 1
	}
	return n * fact(n-1)
}

var f5 = fact(5)

func main() { fmt.Println(fib(10), f5) }
