package main

import "fmt"

var a = a + 1

func main() { fmt.Println(a) }
