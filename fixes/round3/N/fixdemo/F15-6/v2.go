package main

import "fmt"

type T struct{ n int }

// self reference through a method
func (t T) get() int { return x + t.n }

var x = T{1}.get()

func main() { fmt.Println(x) }
