package main

import "fmt"

var a = f()

func f() int { return a + 1 }

func main() { fmt.Println(a) }
