package main

import "fmt"

// self reference through two functions
var tab = build()

func build() map[string]int { return map[string]int{"n": size()} }
func size() int             { return len(tab) }

func main() { fmt.Println(tab) }
