#!/bin/sh
# usage: check.sh <driver binary> [cmds] ; runs every program of fixdemo/F*/ under go run and under the debugger driver
export GOFLAGS=-mod=mod GOPROXY=off GOSUMDB=off GOTOOLCHAIN=local
cd /tmp/fixwt3-R/fixdemo
drv=$1; cmds=$2
for f in F20/*.go F19-1/*.go neg/*.go; do
  ref=$(go run $f 2>&1)
  out=$($drv $f $cmds 2>&1); rc=$?
  got=$(printf '%s\n' "$out" | sed -n '/^stdout: /,/^stops:/p' | sed '$d' | sed '1s/^stdout: //')
  st=ok; [ "$ref" = "$got" ] || st="STDOUT-DIFF"
  echo "== $f rc=$rc stdout=$st"
  printf '%s\n' "$out" | grep -v '^stdout' | grep -v "^$ref\$"
done
