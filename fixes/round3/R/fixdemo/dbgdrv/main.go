// Command dbgdrv runs a Go program under the yaegi debugger and prints the
// stops it reports.
//
//	dbgdrv prog.go [cmds]
//
// Breakpoints are set on the lines of prog.go that end with a "// BP" comment.
// cmds is a string of commands, one per stop: c continue, i step into, o step
// over, u step out (continue when exhausted; a trailing '*' repeats the
// previous command forever). The expected stops are read from the line
// "// want[ cmds]: ..." of the program, if any, and compared.
package main

import (
	"bytes"
	"context"
	"fmt"
	"os"
	"strings"
	"time"

	"github.com/traefik/yaegi/interp"
	"github.com/traefik/yaegi/stdlib"
)

var reasons = map[interp.DebugEventReason]string{
	interp.DebugPause: "pause", interp.DebugBreak: "brk", interp.DebugEntry: "entry", interp.DebugStepInto: "into",
	interp.DebugStepOver: "over", interp.DebugStepOut: "out",
}

func main() {
	src, err := os.ReadFile(os.Args[1])
	if err != nil {
		panic(err)
	}
	cmds := ""
	if len(os.Args) > 2 {
		cmds = os.Args[2]
	}
	var bps []interp.BreakpointRequest
	want, haveWant := "", false
	for i, l := range strings.Split(string(src), "\n") {
		if strings.HasSuffix(strings.TrimSpace(l), "// BP") {
			bps = append(bps, interp.LineBreakpoint(i+1))
		}
		if s, ok := strings.CutPrefix(l, "// want "+cmds+":"); ok && cmds != "" {
			want, haveWant = strings.TrimSpace(s), true
		}
		if s, ok := strings.CutPrefix(l, "// want:"); ok && cmds == "" {
			want, haveWant = strings.TrimSpace(s), true
		}
	}

	var so bytes.Buffer
	i := interp.New(interp.Options{Stdout: &so, Stderr: &so})
	if err := i.Use(stdlib.Symbols); err != nil {
		panic(err)
	}
	prog, err := i.Compile(string(src))
	if err != nil {
		fmt.Println("compile:", err)
		os.Exit(2)
	}
	type ev struct {
		reason interp.DebugEventReason
		line   int
		gid    int
	}
	evc := make(chan ev, 1<<16)
	dbg := i.Debug(context.Background(), prog, func(e *interp.DebugEvent) {
		v := ev{reason: e.Reason(), line: -1}
		if _, ok := reasons[v.reason]; ok {
			if fr := e.Frames(0, 1); len(fr) > 0 {
				v.line = fr[0].Position().Line
			}
			v.gid = e.GoRoutine()
		}
		evc <- v
	}, nil)
	if len(bps) > 0 {
		for _, b := range dbg.SetBreakpoints(interp.ProgramBreakpointTarget(prog), bps...) {
			if !b.Valid {
				fmt.Println("invalid breakpoint")
			}
		}
	}
	ci := 0
	last := byte('c')
	send := func(gid int) {
		c := byte('c')
		switch {
		case ci < len(cmds) && cmds[ci] == '*':
			c = last
		case ci < len(cmds):
			c = cmds[ci]
			ci++
		}
		last = c
		deadline := time.Now().Add(5 * time.Second)
		for {
			var err error
			switch c {
			case 'c':
				err = dbg.Continue(gid)
			case 'i':
				err = dbg.Step(gid, interp.DebugStepInto)
			case 'o':
				err = dbg.Step(gid, interp.DebugStepOver)
			case 'u':
				err = dbg.Step(gid, interp.DebugStepOut)
			}
			if err == nil {
				return
			}
			if err != interp.ErrRunning || time.Now().After(deadline) {
				fmt.Println("command", string(c), err)
				dbg.Terminate()
				return
			}
			time.Sleep(20 * time.Microsecond)
		}
	}
	// The first command starts the program.
	if cmds == "" || cmds[0] == 'c' {
		send(0)
	} else {
		if err := dbg.Step(0, interp.DebugEntry); err != nil {
			panic(err)
		}
	}
	var got []string
	timeout := time.After(20 * time.Second)
loop:
	for {
		select {
		case e := <-evc:
			if e.reason == interp.DebugTerminate {
				break loop
			}
			if r, ok := reasons[e.reason]; ok {
				got = append(got, fmt.Sprintf("%s:%d", r, e.line))
				if len(got) > 500 {
					dbg.Terminate()
					break loop
				}
				send(e.gid)
			}
		case <-timeout:
			fmt.Println("TIMEOUT")
			dbg.Terminate()
			break loop
		}
	}
	_, err = dbg.Wait()
	fmt.Print("stdout: ", so.String())
	if err != nil {
		fmt.Println("err:", err)
	}
	g := strings.Join(got, " ")
	fmt.Println("stops:", g)
	if haveWant {
		if g == want {
			fmt.Println("OK")
		} else {
			fmt.Println("MISMATCH want:", want)
			os.Exit(1)
		}
	}
}
