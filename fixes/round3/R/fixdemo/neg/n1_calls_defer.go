package main

import "fmt"

func add(a, b int) int {
	r := a + b // BP
	return r
}

func twice(f func(int) int, v int) int {
	defer fmt.Println("twice done") // BP
	return f(f(v))
}

func main() {
	x := add(1, 2)
	y := twice(func(v int) int {
		return v * 3 // BP
	}, x)
	fmt.Println(x, y) // BP
}

// want: brk:6 brk:11 brk:18 brk:18 brk:20
