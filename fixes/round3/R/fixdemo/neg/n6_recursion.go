package main

import "fmt"

func fib(n int) int {
	if n < 2 {
		return n // BP
	}
	return fib(n-1) + fib(n-2)
}

func main() {
	fmt.Println(fib(4)) // BP
}

// want: brk:7 brk:7 brk:7 brk:7 brk:7 brk:13
