package main

import "fmt"

type shape interface{ area() int }

type sq struct{ s int }
type rect struct{ w, h int }

func (s sq) area() int   { return s.s * s.s }   // BP
func (r rect) area() int { return r.w * r.h } // BP

func main() {
	t := 0
	for _, s := range []shape{sq{2}, rect{2, 3}, sq{1}} {
		t += s.area()
	}
	fmt.Println(t) // BP
}

// want: brk:10 brk:11 brk:10 brk:18
