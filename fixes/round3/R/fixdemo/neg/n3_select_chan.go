package main

import "fmt"

func main() {
	a := make(chan int, 1)
	b := make(chan string, 1)
	out := ""
	for i := 0; i < 3; i++ {
		if i == 1 {
			b <- "s"
		} else {
			a <- i
		}
		select {
		case v := <-a:
			out += fmt.Sprint(v) // BP
		case s := <-b:
			out += s // BP
		}
	}
	fmt.Println(out) // BP
}

// want: brk:17 brk:19 brk:17 brk:22
