package main

import "fmt"

var g = 3

func main() {
	a := 1     // BP
	b := a + g // BP
	c := []int{a, b}
	m := map[string]int{"k": c[1]} // BP
	fmt.Println(a, b, c, m)        // BP
}

// want: brk:8 brk:9 brk:11 brk:12
