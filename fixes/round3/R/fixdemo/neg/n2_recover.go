package main

import "fmt"

func safe(i int, a []int) (r int) {
	defer func() {
		if e := recover(); e != nil {
			r = -1 // BP
		}
	}()
	r = a[i] // BP
	return r
}

func main() {
	a := []int{4, 5}
	fmt.Println(safe(1, a), safe(7, a), safe(0, a)) // BP
}

// the breakpoint of line 11 is on the assignment, not reached when the index panics
// want: brk:11 brk:8 brk:11 brk:17
