package main

import "fmt"

func main() {
	s := ""
	for i := 0; i < 4; i++ {
		if i%2 == 0 {
			s += "a" // BP
		} else {
			s += "b" // BP
		}
	}
	fmt.Println(s)
}

// want: brk:9 brk:11 brk:9 brk:11
