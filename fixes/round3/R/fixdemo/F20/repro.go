package main

import "fmt"

func main() {
	c := false
	x := 0
	if c {
		x = 1 // BP
	} else {
		x = 2 // BP
	}
	fmt.Println(x)
}

// want: brk:11
