package main

import "fmt"

func main() {
	pick := func(a, b bool) int {
		r := 0
		if a {
			if b {
				r = 11 // BP
			} else {
				r = 10 // BP
			}
		} else {
			if b {
				r = 1 // BP
			} else {
				r = 0 // BP
			}
		}
		return r
	}
	fmt.Println(pick(false, true), pick(true, false), pick(false, false), pick(true, true))
}

// want: brk:16 brk:12 brk:18 brk:10
