package main

import "fmt"

func main() {
	n := 0
	for _, v := range []interface{}{"s", 1, 2.0, 3, "t"} {
		switch v.(type) {
		case int:
			n += 1 // BP
		case string:
			n += 10 // BP
		default:
			n += 100 // BP
		}
	}
	fmt.Println(n)
	for i := 0; ; i++ {
		if i > 2 {
			n-- // BP
			break
		} else {
			n++ // BP
			continue
		}
	}
}

// want: brk:12 brk:10 brk:14 brk:10 brk:12 brk:23 brk:23 brk:23 brk:20
