package main

import "fmt"

func f(a, b int) int {
	if a > 0 && b > 0 || a < -5 {
		return 1 // BP
	}
	return 2 // BP
}

func g(m map[string]int, k string) int {
	if v, ok := m[k]; ok {
		return v // BP
	} else {
		return -1 // BP
	}
}

func main() {
	fmt.Println(f(1, 1), f(1, 0), f(-6, 0), f(0, 3))
	m := map[string]int{"a": 7}
	fmt.Println(g(m, "b"), g(m, "a"))
}

// want: brk:7 brk:9 brk:7 brk:9 brk:16 brk:14
