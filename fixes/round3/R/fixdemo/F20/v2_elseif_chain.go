package main

import "fmt"

func classify(n int) string {
	r := ""
	if n < 0 {
		r = "neg" // BP
	} else if n == 0 {
		r = "zero" // BP
	} else if n < 10 {
		r = "small" // BP
	} else {
		r = "big" // BP
	}
	return r
}

func main() {
	fmt.Println(classify(5), classify(-1), classify(100), classify(0))
}

// want: brk:12 brk:8 brk:14 brk:10
