package main

import "fmt"

type T struct{ n int }

func (t *T) inc() { t.n++ }
func (t *T) dec() { t.n-- }

func main() {
	t := &T{}
	for _, up := range []bool{false, true, true, false, false} {
		if up {
			t.inc() // BP
		} else {
			t.dec() // BP
		}
	}
	if t.n < 0 {
		fmt.Println("negative", t.n) // BP
	} else {
		fmt.Println("positive", t.n) // BP
	}
}

// want: brk:16 brk:14 brk:14 brk:16 brk:16 brk:20
