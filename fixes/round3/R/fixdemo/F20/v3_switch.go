package main

import "fmt"

func main() {
	x := 0.0
	for _, k := range []int{2, 0, 3, 1} {
		switch k {
		case 0:
			x = 1.5 // BP
		case 1:
			x = 2.5 // BP
		case 2:
			x = 3.5 // BP
		default:
			x = 4.5 // BP
		}
		fmt.Println(x)
	}
}

// want: brk:14 brk:10 brk:16 brk:12
