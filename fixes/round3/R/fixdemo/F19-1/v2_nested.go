package main

import "fmt"

func main() {
	n := 0
	i := 0
	for i < 2 { // BP
		j := 0
		for j < 2 { // BP
			n += i + j
			j++
		}
		i++
	}
	fmt.Println(n)
}

// want: brk:8 brk:10 brk:10 brk:10 brk:8 brk:10 brk:10 brk:10 brk:8
