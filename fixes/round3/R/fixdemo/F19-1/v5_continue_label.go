package main

import "fmt"

func main() {
	n := 0
outer:
	for i := 0; i < 3; i++ {
		j := 0
		for j < 3 { // BP
			j++
			if j == 2 {
				n += 10 // BP
				continue outer
			}
			n++
		}
	}
	fmt.Println(n)
	k := 0
	for {
		k++ // BP
		if k == 3 {
			break
		}
	}
	fmt.Println(k)
}

// want: brk:10 brk:10 brk:13 brk:10 brk:10 brk:13 brk:10 brk:10 brk:13 brk:22 brk:22 brk:22
