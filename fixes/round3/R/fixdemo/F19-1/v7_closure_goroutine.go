package main

import "fmt"

type acc struct{ v []int }

func (a *acc) fill(n int) {
	for len(a.v) < n { // BP
		a.v = append(a.v, len(a.v))
	}
}

func main() {
	a := &acc{}
	a.fill(2)
	f := func() int {
		s := 0
		i := 0
		for i < len(a.v) { // BP
			s += a.v[i]
			i++
		}
		return s
	}
	fmt.Println(f())
	done := make(chan int)
	go func() {
		done <- f()
	}()
	fmt.Println(<-done)
}

// want: brk:8 brk:8 brk:8 brk:19 brk:19 brk:19 brk:19 brk:19 brk:19
