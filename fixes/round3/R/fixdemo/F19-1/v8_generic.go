package main

import "fmt"

func index[T comparable](a []T, v T) int {
	r := -1
	i := 0
	for i < len(a) {
		if a[i] == v {
			r = i
		} else {
			r = -2
		}
		i++
	}
	return r
}

func main() {
	fmt.Println(index([]int{1, 2}, 1))
	fmt.Println(index([]string{"x"}, "x"))
	fmt.Println(index([]int{3}, 4))
}

// No line breakpoint here: SetBreakpoints panics on a program with a generic
// function (it generates the closures of the template), before and after the patch.
// want i*: entry:20 into:20 into:20 into:6 into:6 into:7 into:8 into:8 into:9 into:9 into:10 into:9 into:9 into:14 into:8 into:8 into:8 into:9 into:9 into:12 into:12 into:11 into:9 into:14 into:8 into:8 into:8 into:8 into:16 into:20 into:20 into:21 into:21 into:21 into:6 into:6 into:7 into:8 into:8 into:9 into:9 into:10 into:9 into:9 into:14 into:8 into:8 into:8 into:8 into:16 into:21 into:21 into:22 into:22 into:22 into:6 into:6 into:7 into:8 into:8 into:9 into:9 into:12 into:12 into:11 into:9 into:14 into:8 into:8 into:8 into:8 into:16 into:22 into:22 into:19
