package main

import "fmt"

func main() {
	x := 0
	for x < 2 { // BP
		x++
	}
	y := 0
	for y < 3 { // BP
		y++
	}
	fmt.Println(x, y)
}

// want: brk:7 brk:7 brk:7 brk:11 brk:11 brk:11 brk:11
