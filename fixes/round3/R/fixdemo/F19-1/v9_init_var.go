package main

import "fmt"

var table = func() []int {
	t := []int{}
	for len(t) < 2 { // BP
		t = append(t, len(t)*2)
	}
	return t
}()

func init() {
	n := 0
	for n < 2 { // BP
		n++
	}
	table = append(table, n)
}

func main() {
	for i := len(table); i > 1; { // BP
		i--
		fmt.Println(table[i]) // BP
	}
}

// want: brk:7 brk:7 brk:7 brk:15 brk:15 brk:15 brk:22 brk:24 brk:24
