package main

import "fmt"

func main() {
	s := 0.0
	for i := 0.5; // BP
	i < 3;        // BP
	i++ {         // BP
		s += i
	}
	fmt.Println(s)
}

// want: brk:7 brk:8 brk:9 brk:8 brk:9 brk:8 brk:9 brk:8
