package main

import "fmt"

func main() {
	x := 0
	for x < 3 { // BP
		x++
	}
	fmt.Println(x)
}

// want: brk:7 brk:7 brk:7 brk:7
