package main

import "fmt"

func main() {
	t := ""
	for _, s := range []string{"a", "b", "c"} {
		t += s // BP
	}
	for k := range map[int]bool{1: true} {
		t += fmt.Sprint(k) // BP
	}
	for _, r := range "xy" {
		t += string(r) // BP
	}
	fmt.Println(t)
}

// want: brk:8 brk:8 brk:8 brk:11 brk:14 brk:14
