package main

import "fmt"

func count(n int) int {
	c := 0
	for c < n { // BP
		c++
	}
	return c
}

func main() {
	fmt.Println(count(1), count(0), count(2))
	i := 0
loop:
	if i < 2 { // BP
		i++
		goto loop
	}
	fmt.Println(i)
}

// want: brk:7 brk:7 brk:7 brk:7 brk:7 brk:7 brk:17 brk:17 brk:17
