package main

import "fmt"

func main() {
	var pn *[3]int
	for i := range pn {
		fmt.Println(i)
	}
	fmt.Println("done")
}
