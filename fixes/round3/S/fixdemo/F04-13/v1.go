package main

import "fmt"

type T struct{ a, b int }

type Arr [2]string

type W struct{ p *[2]int }

func count(p *[4]byte) int {
	c := 0
	for range p {
		c++
	}
	return c
}

func main() {
	var pn *[3]int
	for i := range pn {
		fmt.Println("a", i)
	}
	var pt *[2]T
	for i := range pt {
		fmt.Println("b", i)
	}
	var pa *Arr
	for i := range pa {
		fmt.Println("c", i)
	}
	var w W
	for i := range w.p {
		fmt.Println("d", i)
	}
	fmt.Println(count(nil))
	var pz *[0]int
	for i := range pz {
		fmt.Println("never", i)
	}
	// nested arrays
	var pp *[2][3]int
	for i := range pp {
		fmt.Println("e", i)
	}
	// closures per iteration
	var fs []func() int
	for i := range pn {
		fs = append(fs, func() int { return i })
	}
	for _, f := range fs {
		fmt.Println("f", f())
	}
	// negative: non nil pointers
	arr := [3]int{7, 8, 9}
	p := &arr
	for i := range p {
		p[i]++
		fmt.Println("g", i)
	}
	for i, v := range p {
		p[2] = 100
		fmt.Println("h", i, v)
	}
	for _, v := range &arr {
		fmt.Println("i", v)
	}
	// pointer reassigned to nil in the body
	q := &arr
	for i := range q {
		q = nil
		fmt.Println("j", i)
	}
	q = &arr
	for i, v := range q {
		q = nil
		fmt.Println("k", i, v)
	}
	// nil pointer with value: run time panic
	defer func() { fmt.Println("recovered", recover() != nil) }()
	for i, v := range pn {
		fmt.Println("never", i, v)
	}
}
