package main

import "fmt"

func main() {
	ps := []*[1]int{{10}}
	fmt.Println(*ps[0])
}
