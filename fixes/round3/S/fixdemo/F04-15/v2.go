package main

import "fmt"

type T struct{ a, b int }

// negative: the forms which must keep working
var g = []*T{{1, 2}, {a: 3}}

var ga = [][2]int{{1, 2}}

func main() {
	fmt.Println(*g[0], *g[1], ga)
	e := []*[1]int{&[1]int{10}, {11}}
	fmt.Println(*e[0], *e[1])
	s := [][]int{{1}, {2, 3}}
	m := map[string][]T{"a": {{1, 2}}}
	mm := map[string]map[int]string{"a": {1: "x"}}
	fmt.Println(s, m, mm)
	p := &[]int{1, 2}
	q := &map[string]int{"a": 1}
	r := &[2]string{"a", "b"}
	fmt.Println(*p, *q, *r)
	pp := []*[]int{p, {3}}
	fmt.Println(*pp[0], *pp[1])
	ms := []map[string]*T{{"a": {1, 2}}}
	fmt.Println(*ms[0]["a"])
	mt := map[T]*T{{1, 2}: {3, 4}}
	fmt.Println(*mt[T{1, 2}])
	var arr [2][]*T = [2][]*T{{{1, 1}}, {{2, 2}, nil}}
	fmt.Println(*arr[0][0], *arr[1][0], arr[1][1])
	a3 := [][][]int{{{1}, {2}}, {{3}}}
	fmt.Println(a3)
}
