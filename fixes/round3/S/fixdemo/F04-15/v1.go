package main

import "fmt"

type T struct{ a, b int }

type A [2]int

type M map[string]int

func main() {
	ps := []*[2]float64{{1, 2.5}, {3}}
	fmt.Println(*ps[0], *ps[1], len(ps))
	ss := []*[]string{{"a", "b"}, {}, nil}
	fmt.Println(*ss[0], *ss[1], ss[2] == nil)
	ms := []*map[string]int{{"a": 1}, {}}
	fmt.Println(*ms[0], *ms[1])
	// map values and keyed elements
	mv := map[string]*[3]int{"x": {1, 2, 3}, "y": {2: 9}}
	fmt.Println(*mv["x"], *mv["y"])
	ks := [...]*[]int{2: {7, 8}, 0: {1}}
	fmt.Println(*ks[0], ks[1] == nil, *ks[2], len(ks))
	// nested elision
	ns := []*[2]T{{{1, 2}, {a: 3}}}
	fmt.Println(*ns[0])
	nn := []*[]*[1]int{{{5}, {6}}}
	fmt.Println(*(*nn[0])[0], *(*nn[0])[1])
	nm := []*map[string]*[]T{{"k": {{1, 1}, {2, 2}}}}
	fmt.Println(*(*nm[0])["k"])
	// named types
	na := []*A{{1, 2}, {1: 5}}
	fmt.Println(*na[0], *na[1])
	nms := []*M{{"z": 26}}
	fmt.Println(*nms[0])
	// map keys
	mk := map[*[1]int]string{{1}: "one"}
	for k, v := range mk {
		fmt.Println(*k, v)
	}
	// distinct pointers, in a loop
	var all []*[1]int
	for i := 0; i < 3; i++ {
		l := []*[1]int{{i}}
		all = append(all, l[0])
	}
	all[0][0] = 100
	fmt.Println(*all[0], *all[1], *all[2])
	// expressions as elements
	x := 4
	es := []*[]int{{x, x * 2, len(all)}}
	fmt.Println(*es[0])
	// interface elements
	is := []*[]interface{}{{1, "a", nil, T{1, 2}}}
	fmt.Println(*is[0])
	// struct field of such type
	st := struct{ f []*[2]int }{f: []*[2]int{{1, 2}}}
	fmt.Println(*st.f[0])
}
