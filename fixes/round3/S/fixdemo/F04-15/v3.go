package main

import (
	"fmt"
	"image"
	"time"
)

func main() {
	a := []*[2]time.Duration{{1, 2}}
	fmt.Println(*a[0])
	b := []*[]image.Point{{{1, 2}, {X: 3}}}
	fmt.Println(*b[0])
	c := []*image.Point{{1, 2}}
	fmt.Println(*c[0])
	d := map[string]*map[string]image.Point{"a": {"b": {5, 6}}}
	fmt.Println(*d["a"])
}
