package main

import "fmt"

type P struct{ x, y int }

type Str string

type Q struct{ a, b int }

type Stringer interface{ String() string }

func (p P) String() string { return fmt.Sprint("P", p.x, p.y) }

var ms = map[string]P{"a": {1, 2}}
var sv, sok = ms["a"]
var sv2, sok2 = ms["b"]

var mp = map[Str]*P{"a": {3, 4}}
var pv, pok = mp["a"]
var pv2, pok2 = mp[Str("zz")]

var mi = map[int]interface{}{1: "one", 2: Q{5, 6}}
var iv, iok = mi[1]
var iv2, iok2 = mi[2]
var iv3, iok3 = mi[3]

var mst = map[string]Stringer{"p": P{7, 8}}
var stv, stok = mst["p"]

var mf = map[string]func(int) int{"inc": func(i int) int { return i + 1 }}
var fv, fok = mf["inc"]


var gp = P{9, 10}
var e interface{} = gp
var ap, apok = e.(P)
var as, asok = e.(Stringer)
var ai, aiok = e.(int)
var app, appok = e.(*P)
var _, abok = e.(fmt.Stringer)

var key = "a"
var kv, kok = ms[key]

// dependent global
var dep = sv.x + 10

var nested = map[string]map[string]int{"a": {"b": 1}}
var nv, nok = nested["a"]["b"]

func init() {
	fmt.Println("init", sv, sok)
}

func main() {
	fmt.Println(sv, sok, sv2, sok2)
	fmt.Println(*pv, pok, pv2, pok2)
	fmt.Println(iv, iok, iv2, iok2, iv3, iok3)
	fmt.Println(stv.String(), stok)
	fmt.Println(fv(1), fok)
	fmt.Println(ap.String(), apok, as.String(), asok, ai, aiok, app, appok, abok)
	fmt.Println(kv, kok, dep, nv, nok)
	sv.x = 100
	fmt.Println(sv, ms["a"])
	p := &sv
	p.y = 200
	fmt.Println(sv)
}
