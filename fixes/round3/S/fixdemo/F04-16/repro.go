package main

import "fmt"

var gm = map[string]int{"x": 1}
var gv, gok = gm["x"]

func main() {
	fmt.Println(gv, gok)
}
