package main

import "fmt"

func mk() chan int { c := make(chan int, 1); c <- 7; return c }

var ch = mk()
var cv = <-ch

func main() {
	fmt.Println(cv)
}
