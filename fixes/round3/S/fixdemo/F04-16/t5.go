package main

import "fmt"

func mk() chan int { c := make(chan int, 1); c <- 7; close(c); return c }

var ch = mk()
var cv, cok = <-ch
var cv2, cok2 = <-ch

var gm = map[string]int{"x": 1}
var _, gok2 = gm["x"]
var gv3, _ = gm["x"]
var gv4, gok4 = gm["y"]

func main() {
	fmt.Println(cv, cok, cv2, cok2, gok2, gv3, gv4, gok4)
}
