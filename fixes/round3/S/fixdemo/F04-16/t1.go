package main

import "fmt"

var x interface{} = 3
var v, ok = x.(int)

func main() {
	fmt.Println(v, ok)
}
