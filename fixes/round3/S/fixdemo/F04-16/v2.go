package main

import "fmt"

// negative: the local forms and the call form must keep working
var gm = map[string]int{"x": 1}

func two() (int, bool) { return 2, true }

var a, b = two()

func main() {
	v, ok := gm["x"]
	fmt.Println(v, ok)
	var w, wok = gm["y"]
	fmt.Println(w, wok)
	var e interface{} = "s"
	s, sok := e.(string)
	var i, iok = e.(int)
	fmt.Println(s, sok, i, iok)
	ch := make(chan string, 1)
	ch <- "m"
	close(ch)
	var m, mok = <-ch
	m2, mok2 := <-ch
	fmt.Println(m, mok, m2, mok2)
	fmt.Println(a, b)
	var ps []*int
	for k := 0; k < 3; k++ {
		v, ok := gm["x"]
		v += k
		ps = append(ps, &v)
		_ = ok
	}
	fmt.Println(*ps[0], *ps[1], *ps[2])
	v, ok2 := gm["zz"]
	fmt.Println(v, ok2)
}
