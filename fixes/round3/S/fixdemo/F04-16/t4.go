package main

import "fmt"

var gm = map[string]int{"x": 1}
var gv, gok = gm["x"]
var gw = gm["x"]

func main() {
	fmt.Println(gv, gok, gw, gm)
	lv, lok := gm["x"]
	fmt.Println(lv, lok)
}
