package main

import "fmt"

func main() {
	func() {
		for i := 0; i < 2; i++ {
			x := i + 1
			defer func() { fmt.Println("s", x) }()
		}
	}()
	for i := 0; i < 2; i++ {
		x := i + 1
		defer func() { fmt.Println("t", x) }()
	}
}
