package main

import "fmt"

type M map[string]int
type M2 M
type A [2]int
type A2 A

func main() {
	fmt.Println([]M2{{"a": 1}})
	fmt.Println([]A2{{1, 2}})
	fmt.Println(M2{"a": 1})
}
