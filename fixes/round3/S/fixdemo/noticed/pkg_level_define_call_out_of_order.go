package main

import "fmt"

var a, b = f()

func f() (int, bool) { return 1, true }

func main() {
	fmt.Println(a, b)
}
