package main

import "fmt"

type P struct{ x, y int }

func (p P) String() string { return fmt.Sprint("P", p.x, p.y) }

var mi = map[int]interface{}{1: "one", 2: P{5, 6}}
var g2 = mi[2]

func main() {
	fmt.Println(g2)
	iv2, iok2 := mi[2]
	fmt.Println(iv2, iok2)
	fmt.Println(mi[2])
	fmt.Println(P{1, 2})
}
