package main

import "fmt"

func main() {
	arr := [3]int{7, 8, 9}
	p := &arr
	for i, _ := range p {
		fmt.Println("g", i)
	}
	for i, _ := range arr {
		fmt.Println("g", i)
	}
}
