package main

import (
	"fmt"
	"strconv"
)

type I interface{ M() }
type T struct{}

func (T) M() {}

var _ I = T{}
var _ = fmt.Sprint
var _, _ = strconv.Atoi("1")

func main() {
	fmt.Println("ok")
}
