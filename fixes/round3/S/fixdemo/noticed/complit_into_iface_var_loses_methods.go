package main

import "fmt"

type P struct{ x, y int }

type Stringer interface{ String() string }

func (p P) String() string { return fmt.Sprint("P", p.x, p.y) }

func main() {
	var e2 interface{} = P{9, 10}
	as2, asok2 := e2.(Stringer)
	fmt.Println(as2, asok2)
	p := P{1, 2}
	var e3 interface{} = p
	as3, asok3 := e3.(Stringer)
	fmt.Println(as3, asok3)
	var e4 interface{}
	e4 = P{3, 4}
	as4, asok4 := e4.(Stringer)
	fmt.Println(as4, asok4)
}
