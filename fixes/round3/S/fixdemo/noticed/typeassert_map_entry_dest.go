package main

import "fmt"

func main() {
	var src interface{} = 3
	var ok bool
	m := map[string]int{"k": 9}
	m["k"], ok = src.(int) // Go: map[k:3] true; yaegi leaves the entry unchanged
	fmt.Println(m, ok)
}
