package main

import "fmt"

func main() {
	var i int
	w := 3
	for i = range w {
	}
	fmt.Println("m", i, w)
	var j int
	for j = range []int{1, 2, 3} {
	}
	fmt.Println(j)
}
