package main

import (
	"fmt"
	"unicode"
)

var lt = unicode.Scripts["Latin"]

func main() {
	fmt.Println(lt != nil)
}
