package main

import "fmt"

const c = 6

type I interface{}

func f1(b uint8) interface{} { return (-4) << b }
func f2(b uint) interface{}  { return (4) << b }
func f3(b int) interface{}   { return (c) << b }
func f4(b uint16) I          { return (4 + 1) << b }
func f5() interface{}        { return (-4) << 2 }
func f6(b uint8) interface{} { return ((c + 1) * 2) >> b }
func f7(b uint8) (int, interface{}) {
	return 1, (1) << b
}
func f8(b uint8) fmt.Stringer { return nil }

func main() {
	var b uint8 = 3
	var e1 interface{} = (-4) << b
	var e2 interface{} = (4) << b
	var e3 interface{} = (c) << b
	var e4 interface{} = (4 + 1) << b
	var e5 interface{} = (-4) << 2
	var e6 I = (c) >> b
	var e7 interface{} = ((1)) << b
	var e8, e9 interface{} = (2) << b, (3) << b
	for _, e := range []interface{}{e1, e2, e3, e4, e5, e6, e7, e8, e9} {
		fmt.Printf("%T %v\n", e, e)
	}
	for _, e := range []interface{}{f1(b), f2(3), f3(3), f4(3), f5(), f6(1)} {
		fmt.Printf("%T %v\n", e, e)
	}
	_, r := f7(4)
	fmt.Printf("%T %v\n", r, r)
	// assignment, call argument, composite element, map value, channel send
	var a interface{}
	a = (-4) << b
	fmt.Printf("%T %v\n", a, a)
	fmt.Printf("%T %v\n", (4)<<b, (4)<<b)
	s := []interface{}{(1) << b, (c) << b}
	m := map[string]interface{}{"k": (5) << b}
	fmt.Printf("%T %v %T %v\n", s[0], s, m["k"], m)
	ch := make(chan interface{}, 1)
	ch <- (7) << b
	x := <-ch
	fmt.Printf("%T %v\n", x, x)
	// typed destinations: the constant takes the destination type
	var i8 int8 = (1) << b
	var u16 uint16 = (c) << b
	var f interface{} = int64((1) << b)
	var i64 int64 = (1)<<b + 1
	fmt.Printf("%T %v %T %v %T %v %v\n", i8, i8, u16, u16, f, f, i64)
	// count large enough to overflow int32 but not int
	var big uint = 40
	var e10 interface{} = (1) << big
	fmt.Printf("%T %v\n", e10, e10)
	// other operators with parenthesised constants into interface
	var y = 5
	var g interface{} = (2) + y
	var h interface{} = (2.5) * float64(y)
	var k interface{} = (c) % y
	var l interface{} = (3) < y
	fmt.Printf("%T %v %T %v %T %v %T %v\n", g, g, h, h, k, k, l, l)
}
