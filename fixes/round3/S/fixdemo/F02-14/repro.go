package main

import "fmt"

func f(b uint8) interface{} {
	return (-4) << b
}

func main() {
	var b uint8 = 3
	var e interface{} = (-4) << b
	fmt.Printf("%T %v\n", e, e)
	r := f(b)
	fmt.Printf("%T %v\n", r, r)
}
