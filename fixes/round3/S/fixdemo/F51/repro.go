package main

import "fmt"

func main() {
	n := 3
	for i := range n {
		n = 1
		fmt.Println(i)
	}
	fmt.Println(n)
}
