package main

import "fmt"

var g = 4

func dec() { g = 0 }

func bound() int { fmt.Println("bound"); return 3 }

type S struct{ n int }

func main() {
	// closure modifies the bound
	n := 3
	set := func() { n = 10 }
	for i := range n {
		set()
		fmt.Println("a", i)
	}
	fmt.Println(n)
	// global bound changed from a called function
	for i := range g {
		dec()
		fmt.Println("b", i)
	}
	// bound growing
	m := 2
	for i := range m {
		m += 5
		fmt.Println("c", i, m)
	}
	// struct field and pointer deref
	s := &S{2}
	for i := range s.n {
		s.n = 0
		fmt.Println("d", i)
	}
	p := &m
	for i := range *p {
		*p = 0
		fmt.Println("e", i)
	}
	// nested, inner loop re-executed with a bound changed in body
	for o := range 2 {
		k := 2
		for i := range k {
			k = 0
			fmt.Println("f", o, i)
		}
	}
	// no key
	z := 3
	c := 0
	for range z {
		z = 0
		c++
	}
	fmt.Println("g", c, z)
	// call and constant bounds
	for i := range bound() {
		fmt.Println("h", i)
	}
	for i := range 2 {
		fmt.Println("i", i)
	}
	const K = 2
	for i := range K {
		fmt.Println("j", i)
	}
	// parameter bound and recursion
	fmt.Println(rec(3))
	// closures capture per-iteration i
	var fs []func() int
	q := 3
	for i := range q {
		q--
		fs = append(fs, func() int { return i })
	}
	for _, f := range fs {
		fmt.Println("k", f())
	}
	// slice element
	a := []int{3}
	for i := range a[0] {
		a[0] = 0
		fmt.Println("l", i)
	}
	// zero and negative
	neg := -1
	for i := range neg {
		fmt.Println("never", i)
	}
}

func rec(n int) int {
	t := 0
	for i := range n {
		n--
		t += i + rec(i)
	}
	return t
}
