package main

import "fmt"

func f(i int) string { fmt.Println("f", i); return "s" }

func main() {
	for _, v := range []int{1, 2} {
		var y int
		_, y = v, v+1
		fmt.Println(y)
		_ = f(v)
		_ = v
	}
	for i := 0; i < 2; i++ {
		var y int
		_, y = i, i+1
		fmt.Println(y)
	}
}
