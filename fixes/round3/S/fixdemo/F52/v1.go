package main

import (
	"fmt"
	"sort"
)

func main() {
	// operator expression on the right
	for j := 0; j < 2; j++ {
		j := j + 10
		fmt.Println("a", j)
	}
	// closures before and after the declaration
	var fs []func() int
	for i := 0; i < 2; i++ {
		fs = append(fs, func() int { return i })
		i := i * 100
		fs = append(fs, func() int { return i })
		i++
	}
	for _, f := range fs {
		fmt.Println("b", f())
	}
	// assignments to the loop variable before the declaration are kept by the loop
	for i := 0; i < 6; i++ {
		i++
		i := i
		i += 100
		fmt.Println("c", i)
	}
	// another type
	for i := 0; i < 2; i++ {
		i := fmt.Sprint("s", i)
		fmt.Println("d", i)
	}
	// multiple declaration
	for i := 0; i < 2; i++ {
		i, j := i+5, i+6
		fmt.Println("e", i, j)
	}
	for i := 0; i < 2; i++ {
		j, i := "x", float64(i)
		fmt.Println("e2", i, j)
	}
	// range key and value
	for k, v := range []string{"x", "y"} {
		k := k + 1
		v := v + "!"
		fmt.Println("f", k, v)
	}
	for k, v := range []string{"x", "y"} {
		v, k := k, v
		fmt.Println("f2", k, v)
	}
	// range over int, string, map, channel
	for i := range 2 {
		i := i * 2
		fmt.Println("g", i)
	}
	for i, r := range "ab" {
		r := string(r)
		i := -i
		fmt.Println("h", i, r)
	}
	m := map[string]int{"a": 1, "b": 2}
	var out []string
	for k, v := range m {
		k := k + k
		v := v * 10
		out = append(out, fmt.Sprint(k, v))
	}
	sort.Strings(out)
	fmt.Println("i", out)
	ch := make(chan int, 2)
	ch <- 1
	ch <- 2
	close(ch)
	for v := range ch {
		v := v + 1
		fmt.Println("j", v)
	}
	// addresses
	var ps []*int
	for i := 0; i < 3; i++ {
		i := i
		ps = append(ps, &i)
	}
	*ps[0] = 10
	fmt.Println("k", *ps[0], *ps[1], *ps[2])
	// goroutine idiom
	res := make(chan int, 3)
	for i := 0; i < 3; i++ {
		i := i
		go func() { res <- i }()
	}
	sum := 0
	for i := 0; i < 3; i++ {
		sum += <-res
	}
	fmt.Println("l", sum)
	// nested loops with the same name
	for i := 0; i < 2; i++ {
		i := i + 1
		for i := 0; i < i+1 && i < 2; i++ {
			i := i * 3
			fmt.Println("m", i)
		}
		fmt.Println("m2", i)
	}
	// continue and break after the declaration
	for i := 0; i < 5; i++ {
		i := i * 2
		if i == 2 {
			continue
		}
		if i > 5 {
			break
		}
		fmt.Println("n", i)
	}
	// labelled
outer:
	for i := 0; i < 3; i++ {
		i := i + 1
		for j := 0; j < 3; j++ {
			j := j + i
			if j > 3 {
				continue outer
			}
			fmt.Println("o", i, j)
		}
	}
	// declaration in a nested block only
	for i := 0; i < 2; i++ {
		if true {
			i := 7
			_ = i
		}
		{
			i := 8
			i++
		}
		fmt.Println("p", i)
	}
	// loop variable declared outside or without :=
	var q int
	for q = 0; q < 2; q++ {
		q := q + 1
		fmt.Println("q", q)
	}
	fmt.Println("q2", q)
	// two loop variables
	for i, j := 0, 10; i < 2; i, j = i+1, j-1 {
		j := j * 2
		i := i + j
		fmt.Println("r", i, j)
	}
	// function literal body
	func() {
		for i := 0; i < 2; i++ {
			i := i + 1
			func() { fmt.Println("s", i) }()
		}
	}()
	// var declaration of the same name
	for i := 0; i < 2; i++ {
		var i string = fmt.Sprint(i)
		fmt.Println("t", i+"!")
	}
}

func init() {
	for i := 0; i < 2; i++ {
		const i = "c"
		fmt.Println("u", i)
	}
	for i := 0; i < 2; i++ {
		var (
			j = i + 1
			i = j * 2
		)
		fmt.Println("v", i, j)
	}
}
