package main

import "fmt"

func main() {
	for i := 0; i < 2; i = i + 1 {
		i := 5
		fmt.Println(i)
	}
	for k := 0; k < 4; k = k + 1 {
		k := k
		fmt.Println(k)
		k = k + 1
	}
}
