package main

import "fmt"

func fi() int    { fmt.Println("fi"); return 1 }
func fs() string { fmt.Println("fs"); return "s" }

func main() {
	_ = fi()
	_ = fs()
	_ = fi()
	fmt.Println("ok")
}
