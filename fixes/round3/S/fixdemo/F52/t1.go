package main

import "fmt"

func f(i int) string { fmt.Println("f", i); return "s" }

func main() {
	for _, v := range []int{1, 2} {
		var y int
		_, y = v, v+1
		fmt.Println(y)
		_ = f(v)
		_ = v
	}
	for _, v := range []int{1, 2} {
		v := fmt.Sprint("n", v)
		fmt.Println(v)
	}
	for i := 0; i < 2; i++ {
		i := float64(i) / 2
		fmt.Println(i)
	}
	for i := range []int{1, 2} {
		i := "k" + fmt.Sprint(i)
		fmt.Println(i)
	}
}
