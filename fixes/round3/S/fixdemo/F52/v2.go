package main

import (
	"errors"
	"fmt"
	"strconv"
)

type I interface{ M() }
type T struct{}

func (T) M() {}

var _ I = T{}

var at, _ = strconv.Atoi("1")

func two() (int, error)    { return 2, nil }
func three() (string, error) { return "", errors.New("e") }
func fi() int              { return 1 }
func fs() string           { return "s" }
func ff() float64          { return 1.5 }

func main() {
	// modifications of the loop variable in the body are seen by the loop
	for i := 0; i < 10; i++ {
		if i%2 == 0 {
			i += 3
		}
		fmt.Println("a", i)
	}
	for i := 0; i < 3; i++ {
		p := &i
		*p++
		fmt.Println("b", i)
	}
	// redeclaration in the same scope
	a, err := two()
	b, err := three()
	fmt.Println(a, b, err)
	x := 1
	px := &x
	x, y := 2, 3
	fmt.Println(x, y, *px)
	for i := 0; i < 2; i++ {
		v, err := two()
		w, err := three()
		fmt.Println(i, v, w, err)
	}
	// blank identifier
	_ = fi()
	_ = fs()
	_ = ff()
	_ = fi()
	_, _ = fs(), fi()
	_, z := fi(), fs()
	_, z2 := fs(), ff()
	fmt.Println(z, z2)
	var _ = fs()
	var _ int = fi()
	for _, v := range []string{"p", "q"} {
		_ = v
		_ = fi()
		_ = fs()
		var n int
		_, n = fs(), len(v)+1
		_, s := v, v+v
		fmt.Println(n, s)
	}
	for i := range 2 {
		_ = i
		_ = fs()
		_ = ff()
	}
	for range 2 {
		_ = fs()
		_ = ff()
	}
	for _, _ = range []int{1} {
		_ = fs()
	}
	m := map[string]int{"a": 1}
	_, ok := m["a"]
	_, ok2 := m["b"]
	fmt.Println(ok, ok2)
	if _, err := three(); err != nil {
		fmt.Println("err", err)
	}
	ch := make(chan int, 2)
	ch <- 1
	ch <- 2
	_ = <-ch
	select {
	case _ = <-ch:
		fmt.Println("recv")
	default:
	}
	var e interface{} = 1
	_, isInt := e.(int)
	_ = e.(int)
	_ = e
	fmt.Println(isInt)
	f := func() {
		_ = fs()
		_ = fi()
	}
	f()
	switch _ = fs(); {
	default:
		_ = fi()
	}
}
