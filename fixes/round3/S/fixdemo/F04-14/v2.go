package main

import (
	"fmt"
	"io"
	"os"
	"strings"
)

type N struct {
	v    interface{}
	next *N
}

func walk(n *N, acc []*int) []*int {
	if n == nil {
		return acc
	}
	i, ok := n.v.(int)
	if ok {
		acc = append(acc, &i)
	}
	return walk(n.next, acc)
}

func classify(x interface{}) string {
	switch v := x.(type) {
	case int:
		return fmt.Sprint("int ", v)
	case string:
		return "string " + v
	}
	return "other"
}

func must(x interface{}) (s string) {
	defer func() {
		if r := recover(); r != nil {
			s = "panic"
		}
	}()
	return x.(string)
}

func main() {
	l := &N{1, &N{"x", &N{3, nil}}}
	for _, p := range walk(l, nil) {
		fmt.Println(*p)
	}
	fmt.Println(classify(1), classify("s"), classify(1.5))
	fmt.Println(must("ok"), must(3))
	var r io.Reader = strings.NewReader("abc")
	_, isW := r.(io.Writer)
	rs, isS := r.(io.Seeker)
	fmt.Println(isW, isS, rs != nil)
	var w io.Writer = os.Stdout
	f, ok := w.(*os.File)
	fmt.Println(f == os.Stdout, ok)
	b, ok := w.(*strings.Builder)
	fmt.Println(b == nil, ok)
	// goroutines each with its own result
	done := make(chan string)
	xs := []interface{}{"a", 1, "b"}
	for _, x := range xs {
		s, ok := x.(string)
		go func() { done <- fmt.Sprint(s, ok) }()
		fmt.Println(<-done)
	}
	// assert inside a closure called several times
	var ps []*string
	get := func(x interface{}) {
		s, ok := x.(string)
		_ = ok
		ps = append(ps, &s)
	}
	for _, x := range xs {
		get(x)
	}
	fmt.Println(*ps[0], *ps[1], *ps[2])
	// func typed assertion
	var fx interface{} = func(i int) int { return i * 2 }
	fn, ok := fx.(func(int) int)
	fmt.Println(fn(2), ok)
	fn2, ok := fx.(func() int)
	fmt.Println(fn2 == nil, ok)
}
