package main

import (
	"errors"
	"fmt"
)

type T struct{ a int }

type S interface{ M() int }

func (t T) M() int { return t.a }

type U struct{ b string }

type myErr struct{ s string }

func (e *myErr) Error() string { return e.s }

func main() {
	// assign form: a failed assertion sets the zero value
	var v int
	var ok bool
	for _, x := range []interface{}{1, "a", 3} {
		v, ok = x.(int)
		fmt.Println("a", v, ok)
	}
	// struct type
	t1 := T{1}
	t2 := T{2}
	u := U{"u"}
	var pts []*T
	for _, x := range []interface{}{t1, u, t2} {
		t, ok := x.(T)
		fmt.Println("b", t, ok)
		pts = append(pts, &t)
	}
	fmt.Println(*pts[0], *pts[1], *pts[2])
	// interface type asserted, closures capture
	var fs []func() S
	for _, x := range []interface{}{t1, u, t2} {
		s, ok := x.(S)
		fmt.Println("c", s == nil, ok)
		fs = append(fs, func() S { return s })
	}
	for _, f := range fs {
		if s := f(); s != nil {
			fmt.Println("c2", s.M())
		} else {
			fmt.Println("c2 nil")
		}
	}
	// non empty interface source
	var ss []S = []S{t1, t2}
	var pt []*T
	for _, s := range ss {
		t, ok := s.(T)
		pt = append(pt, &t)
		fmt.Println("d", t.a, ok)
	}
	pt[0].a = 50
	fmt.Println(*pt[0], *pt[1])
	// error values from runtime
	errs := []error{errors.New("e1"), &myErr{"m"}, nil}
	var pm []**myErr
	for _, e := range errs {
		m, ok := e.(*myErr)
		fmt.Println("e", m != nil, ok)
		pm = append(pm, &m)
	}
	fmt.Println(*pm[0] == nil, *pm[1] != nil, *pm[2] == nil)
	// in 3-clause for and status captured
	var oks []*bool
	xs := []interface{}{"s", 2.5, "t"}
	for i := 0; i < len(xs); i++ {
		s, ok := xs[i].(string)
		oks = append(oks, &ok)
		fmt.Println("f", s, ok)
	}
	fmt.Println(*oks[0], *oks[1], *oks[2])
	// blank status, blank value
	for _, x := range xs {
		s, _ := x.(string)
		_, ok := x.(float64)
		fmt.Println("g", s, ok)
	}
	// redeclaration in same scope: x is assigned
	var e interface{} = 7
	n, ok1 := e.(int)
	fmt.Println(n, ok1)
	pn := &n
	e = "str"
	n, ok2 := e.(int)
	fmt.Println(n, ok2, *pn)
	// same name as source
	var src interface{} = "hello"
	if src, ok := src.(string); ok {
		fmt.Println("h", src)
	}
	var err error = &myErr{"x"}
	err, ok3 := err.(*myErr)
	fmt.Println(err.Error(), ok3)
	// assign form with field and map destinations
	var st struct {
		v  int
		ok bool
	}
	st.v = 5
	st.v, st.ok = src.(int)
	fmt.Println(st)
	// switch and if
	if f, ok := src.(fmt.Stringer); !ok {
		fmt.Println("i", f == nil)
	}
}
