package main

import "fmt"

func main() {
	xs := []interface{}{1, "a", 3}
	var ps []*int
	for _, x := range xs {
		v, ok := x.(int)
		fmt.Println(v, ok)
		ps = append(ps, &v)
	}
	fmt.Println(*ps[0], *ps[1], *ps[2])
}
