#!/bin/bash
# cmp.sh <yaegi-or-hprun-binary> <file.go>... : compares go run and the interpreter on each program
export GOFLAGS=-mod=mod GOPROXY=off GOSUMDB=off GOTOOLCHAIN=local
y=$1; shift
case "$y" in *hprun*) run="$y";; *) run="$y run";; esac
for f in "$@"; do
  a=$(cd /tmp/fixwt3-T && go run $f 2>&1 | grep -v '^exit status' | head -60)
  b=$(cd /tmp/fixwt3-T && timeout 20 $run $f 2>&1 | grep -v '^exit status' | grep -v ': panic: main\.main\.func' | head -60)
  if [ "$a" == "$b" ]; then echo "SAME  $f"; else echo "DIFF  $f"; echo "--- go"; echo "$a" | head -${L:-14}; echo "--- interp"; echo "$b" | grep -v "^\s*/\|^goroutine\|^panic(\|^runtime\|^github\|^created by\|^main\.\|^reflect\." | head -${L:-14}; fi
done
