// Package hp is a small host package used by the regression programs.
package hp

import (
	"fmt"
	"strings"
)

type Counter struct{ N int }

func NewCounter(n int) *Counter { return &Counter{N: n} }

func (c *Counter) Add(d int) int { c.N += d; return c.N }
func (c Counter) Get() int       { return c.N }
func (c *Counter) AddAll(ds ...int) int {
	for _, d := range ds {
		c.N += d
	}
	return c.N
}

type Val int

func (v Val) String() string  { return fmt.Sprintf("Val(%d)", int(v)) }
func (v Val) Plus(d int) int  { return int(v) + d }
func (v *Val) Inc() int       { *v++; return int(*v) }

type Getter interface{ Get() int }

func F(a int, xs ...int) int {
	if xs == nil {
		return -a
	}
	s := a
	for _, x := range xs {
		s += x
	}
	return s
}

func G(cb func() int, xs ...int) int { return cb()*100 + len(xs) }

func S(s fmt.Stringer, xs ...int) string { return s.String() + fmt.Sprint(xs) }

func J(sep string, ss ...fmt.Stringer) string {
	var r []string
	for _, s := range ss {
		r = append(r, s.String())
	}
	return strings.Join(r, sep)
}

func Str(s fmt.Stringer) string { return "<" + s.String() + ">" }
