package main

import (
	"fmt"
	"strings"

	"github.com/traefik/yaegi/fixdemo/hp"
)

type V struct{ n int }

func (v V) String() string { return fmt.Sprint("V", v.n) }

type I interface{ Get() int }

type G struct{ n int }

func (g G) Get() int { return g.n }

func cb() int { return 7 }

func sg(c func() int, xs ...int) int { return c() + len(xs) }

func si(i I, xs ...int) int { return i.Get() + len(xs) }

func se(e interface{}, xs ...string) string { return fmt.Sprint(e, xs) }

func mk() I { return G{4} }

type M struct{ k int }

func (m M) vs(p *V, xs ...int) int { return m.k + p.n + len(xs) }

// calls with an ellipsis which worked before the repair
func main() {
	xs := []int{1, 2}
	fv := sg
	fmt.Println(fv(func() int { return 1 }, xs...), sg(func() int { return 2 }, xs...))
	iv := si
	fmt.Println(iv(G{3}, xs...), iv(mk(), xs...), si(G{5}, xs...))
	ev := se
	fmt.Println(ev(1, []string{"a"}...), ev(nil, strings.Fields("b c")...))
	m := M{10}
	mv := m.vs
	fmt.Println(mv(&V{1}, xs...), m.vs(&V{2}, xs...))
	fmt.Println(hp.G(cb, xs...), hp.S(V{2}, xs...), hp.J("/", []fmt.Stringer{V{1}}...))
	f := func(pre string, a ...interface{}) string { return pre + fmt.Sprint(a...) }
	fmt.Println(f("p", []interface{}{1, 2}...))
	defer fv(func() int { fmt.Println("deferred"); return 0 }, xs...)
	go iv(G{1}, xs...)
	var nf func(func() int, ...int) int
	func() {
		defer func() { fmt.Println("recovered", recover() != nil) }()
		nf(cb, xs...)
	}()
}
