package main

import (
	"fmt"

	"github.com/traefik/yaegi/fixdemo/hp"
)

type V struct{ n int }

func (v V) String() string { return fmt.Sprint("V", v.n) }

func cb() int { return 7 }

func sg(c func() int, xs ...int) int { return c() + len(xs) }

func ss(s fmt.Stringer, xs ...int) string { return s.String() + fmt.Sprint(len(xs)) }

func sj(sep string, ss ...fmt.Stringer) string {
	r := ""
	for _, s := range ss {
		r += s.String() + sep
	}
	return r
}

// forms which worked: no ellipsis, direct host calls, script functions through variables
func main() {
	xs := []int{1, 2}
	var fv func(func() int, ...int) int = hp.G
	fmt.Println(fv(cb), fv(cb, 1, 2, 3), hp.G(cb, xs...))
	fv = sg
	fmt.Println(fv(cb), fv(func() int { return 1 }, 4))
	var sv func(fmt.Stringer, ...int) string = ss
	fmt.Println(sv(V{1}, xs...), sv(hp.Val(2)))
	sv = hp.S
	fmt.Println(sv(V{1}), sv(V{1}, 5), hp.S(V{2}, xs...))
	var jv func(string, ...fmt.Stringer) string = sj
	sts := []fmt.Stringer{V{1}, hp.Val(2)}
	fmt.Println(jv(",", sts...), jv(",", V{3}, V{4}), hp.J(",", sts...))
	jv = hp.J
	fmt.Println(jv(",", V{3}, V{4}))
	var iv func(...interface{}) string = fmt.Sprint
	is := []interface{}{1, "x", hp.Val(5), cb()}
	fmt.Println(iv(is...), iv(1, hp.Val(6)))
	func(f func(int, ...int) int) { fmt.Println(f(1, xs...), f(2)) }(hp.F)
}
