package main

import (
	"fmt"

	"github.com/traefik/yaegi/fixdemo/hp"
)

type V struct{ n int }

func (v V) String() string { return fmt.Sprint("V", v.n) }

func cb() int { return 7 }

func main() {
	xs := []int{1}
	var fv func(func() int, ...int) int = hp.G
	fmt.Println(fv(cb, xs...))
	var sv func(fmt.Stringer, ...int) string = hp.S
	fmt.Println(sv(V{3}, xs...))
	defer func() {
		defer fmt.Println("done")
		sv := hp.S
		defer fmt.Println(sv(V{4}, xs...))
	}()
}
