package main

import (
	"fmt"

	"github.com/traefik/yaegi/fixdemo/hp"
)

type I interface{ Get() int }

type G struct{ n int }

func (g G) Get() int { return g.n }

func cb() int { return 7 }

func sg(c func() int, xs ...int) int { return c() + len(xs) }

func si(i I, c func() int, xs ...int) int { return i.Get() + c() + len(xs) }

func mk() (I, func() int) { return G{4}, cb }

// script functions called with an ellipsis: a top level function as argument, a variable
// which held a host function, interface parameters
func main() {
	xs := []int{1, 2}
	fmt.Println(sg(cb, xs...))
	fv := sg
	fmt.Println(fv(cb, xs...))
	var hv func(func() int, ...int) int = hp.G
	fmt.Println(hv(cb, xs...))
	hv = sg
	fmt.Println(hv(cb, xs...), hv(cb))
	fmt.Println(si(G{1}, cb, xs...))
	iv := si
	fmt.Println(iv(G{2}, cb, xs...))
	g := G{3}
	var i I = g
	fmt.Println(iv(i, g.Get, xs...))
	defer func() { fmt.Println(sg(cb, xs...)) }()
	defer fv(cb, xs...)
	done := make(chan int)
	go func(f func(func() int, ...int) int) { done <- f(cb, xs...) }(hp.G)
	fmt.Println(<-done)
}
