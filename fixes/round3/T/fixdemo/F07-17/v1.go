package main

import (
	"bytes"
	"fmt"
	"io"
	"os"

	"github.com/traefik/yaegi/fixdemo/hp"
)

type V struct{ n int }

func (v V) String() string { return fmt.Sprint("V", v.n) }

type P struct{ n int }

func (p *P) String() string { return fmt.Sprint("P", p.n) }

type up struct{ w io.Writer }

func (u up) Write(b []byte) (int, error) { return u.w.Write(bytes.ToUpper(b)) }

func cb() int { return 7 }

func call(f func(func() int, ...int) int, c func() int, xs []int) int { return f(c, xs...) }

type H struct {
	j func(string, ...fmt.Stringer) string
}

func main() {
	xs := []int{1, 2}
	// parameter of function type, closure and top level function arguments
	fmt.Println(call(hp.G, cb, xs), call(hp.G, func() int { return len(xs) }, nil))
	k := 5
	var fv func(func() int, ...int) int = hp.G
	fmt.Println(fv(func() int { k++; return k }, xs...), k)
	// host interface parameters, fixed and variadic
	var sv func(fmt.Stringer, ...int) string = hp.S
	fmt.Println(sv(V{3}, xs...), sv(&P{4}, xs...), sv(hp.Val(5), xs...))
	h := H{j: hp.J}
	ss := []fmt.Stringer{V{1}, &P{2}, hp.Val(3)}
	fmt.Println(h.j("-", ss...), h.j("+", ss[:1]...), h.j("") == "")
	// host function of the standard library
	var pf func(io.Writer, string, ...interface{}) (int, error) = fmt.Fprintf
	args := []interface{}{1, "a", hp.Val(9)}
	n, err := pf(up{os.Stdout}, "%d %s %v\n", args...)
	fmt.Println(n, err)
	pl := fmt.Sprintln
	fmt.Print(pl(args...))
	// deferred and go
	defer fmt.Println("end")
	defer pf(up{os.Stdout}, "deferred %v\n", args[2:]...)
	done := make(chan bool)
	res := make(chan string, 1)
	go func() { res <- sv(V{8}, xs...); done <- true }()
	<-done
	fmt.Println(<-res)
	// method value of a host value with an ellipsis
	c := hp.NewCounter(1)
	aa := c.AddAll
	fmt.Println(aa(xs...))
	var aa2 func(...int) int = c.AddAll
	fmt.Println(aa2(xs...), aa2())
}
