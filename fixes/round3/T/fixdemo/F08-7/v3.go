package main

import "fmt"

type P struct{ a, b int }

func res() (r int) {
	c := make(chan int, 1)
	c <- 9
	r = <-c
	return
}

func main() {
	c := make(chan P, 2)
	ps := make([]P, 2)
	c <- P{1, 2}
	ps[1] = <-c
	fmt.Println(ps)
	pp := &ps[0]
	c <- P{3, 4}
	*pp = <-c
	fmt.Println(ps)
	ci := make(chan int, 3)
	for i := 0; i < 3; i++ {
		ci <- i * 10
	}
	out := make([]int, 3)
	for i := range out {
		out[i] = <-ci
	}
	fmt.Println(out)
	fmt.Println(res())
	// unary operators other than receive into non-identifier destinations
	out[0] = -out[1]
	out[2] = ^out[1]
	bs := []bool{false}
	bs[0] = !bs[0]
	fmt.Println(out, bs)
	cc := make(chan chan int, 1)
	cc <- ci
	chans := make([]chan int, 1)
	chans[0] = <-cc
	fmt.Println(chans[0] == ci)
	// goroutine producer
	d := make(chan int)
	go func() { d <- 77 }()
	ps[0].b = <-d
	fmt.Println(ps)
}
