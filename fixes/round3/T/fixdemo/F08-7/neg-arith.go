package main

import "fmt"

type S struct{ v int }

func main() {
	out := []int{1, 2, 3}
	s := S{}
	p := &s
	a, b := 3, 4
	out[0] = a + b
	s.v = a * b
	p.v = a - b
	fmt.Println(out, s)
	out[1] = -a
	s.v = ^b
	fmt.Println(out, s)
	out[2] = -out[1]
	fmt.Println(out, s)
}
