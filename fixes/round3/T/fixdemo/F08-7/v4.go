package main

import (
	"errors"
	"fmt"
)

type T int

func (t T) M() int { return int(t) * 2 }

type I interface{ M() int }

func r1(c chan int) int            { return <-c }
func r2(c chan int) interface{}    { return <-c }
func r3(c chan T) I                { return <-c }
func r4(c chan I) I                { return <-c }
func r5(c chan error) error        { return <-c }
func r6(c chan int) (int, bool)    { return <-c, true }
func r7(c chan int) (n int)        { defer func() { n++ }(); return <-c }
func r8(c chan []int) []int        { return <-c }
func r9(c chan func() int) func() int { return <-c }
func r10(c chan *T) *T             { return <-c }

func main() {
	c := make(chan int, 4)
	c <- 1
	c <- 2
	fmt.Println(r1(c), r1(c))
	c <- 3
	fmt.Println(r2(c))
	ct := make(chan T, 1)
	ct <- 4
	fmt.Println(r3(ct).M())
	ci := make(chan I, 1)
	ci <- T(5)
	fmt.Println(r4(ci).M())
	ce := make(chan error, 1)
	ce <- errors.New("e")
	fmt.Println(r5(ce))
	c <- 6
	fmt.Println(r6(c))
	c <- 7
	fmt.Println(r7(c))
	cs := make(chan []int, 1)
	cs <- []int{8}
	fmt.Println(r8(cs))
	cf := make(chan func() int, 1)
	cf <- func() int { return 9 }
	fmt.Println(r9(cf)())
	cp := make(chan *T, 1)
	t := T(10)
	cp <- &t
	fmt.Println(*r10(cp))
	f := func() int { c <- 11; return <-c }
	x := f()
	y := f() + f()
	fmt.Println(x, y)
}
