package main

import "fmt"

type S struct {
	v  int
	ok bool
}

func main() {
	c := make(chan int, 2)
	arr := []int{0, 0}
	oks := []bool{false, false}
	s := S{}
	x, ok := 0, false
	_, _ = x, ok
	c <- 5
	arr[1] = <-c
	c <- 6
	s.v = <-c
	fmt.Println(x, ok, arr, oks, s)
}
