package main

import "fmt"

type S struct {
	v  int
	in struct{ w string }
}

type T struct{ p *S }

var g [3]int

func idx() int { fmt.Println("idx"); return 2 }

func main() {
	c := make(chan int, 4)
	cs := make(chan string, 1)
	p := &S{}
	t := T{p: p}
	c <- 1
	p.v = <-c
	fmt.Println(*p)
	c <- 2
	t.p.v = <-c
	fmt.Println(*p)
	cs <- "w"
	t.p.in.w = <-cs
	fmt.Println(*p)
	y := 0
	q := &y
	c <- 3
	*q = <-c
	fmt.Println(y)
	c <- 4
	g[idx()] = <-c
	fmt.Println(g)
	var a2 [2][2]int
	c <- 5
	a2[1][0] = <-c
	fmt.Println(a2)
	m := map[string]int{}
	c <- 6
	m["k"] = <-c
	fmt.Println(m)
	ms := map[string][]int{"a": {0, 0}}
	c <- 7
	ms["a"][1] = <-c
	fmt.Println(ms)
}
