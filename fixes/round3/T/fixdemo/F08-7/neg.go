package main

import "fmt"

var gc = make(chan int, 1)

var gv int

func init() { gc <- 11; gv = <-gc }

type T struct{ c chan string }

func recvRet(c chan int) int { return <-c }

func recvNamed(c chan int) (r int, err error) {
	r = <-c
	return
}

func two(c chan int) (int, int) { return <-c, <-c }

// receive forms which worked before the repair
func main() {
	c := make(chan int, 8)
	b := make(chan bool, 2)
	fmt.Println(gv)
	c <- 1
	x := <-c
	c <- 2
	var y int = <-c
	c <- 3
	var z = <-c
	fmt.Println(x, y, z)
	c <- 4
	x = <-c
	fmt.Println(x)
	c <- 5
	if v := <-c; v > 4 {
		fmt.Println("if", v)
	}
	b <- true
	if <-b {
		fmt.Println("bool branch")
	}
	b <- false
	ok := <-b
	fmt.Println(ok)
	c <- 6
	switch <-c {
	case 6:
		fmt.Println("switch 6")
	}
	c <- 7
	fmt.Println(recvRet(c), <-func() chan int { c <- 8; return c }()+1)
	c <- 9
	fmt.Println(recvNamed(c))
	c <- 10
	c <- 11
	fmt.Println(two(c))
	c2 := make(chan int, 1)
	c <- 12
	c2 <- <-c
	fmt.Println(<-c2)
	t := T{make(chan string, 1)}
	t.c <- "s"
	s := <-t.c
	fmt.Println(s)
	c <- 13
	c <- 14
	a, bb := <-c, <-c
	fmt.Println(a, bb)
	c <- 15
	c <- 16
	a, bb = <-c, <-c
	fmt.Println(a, bb)
	// select clauses
	c <- 20
	select {
	case v := <-c:
		fmt.Println("define", v)
	}
	c <- 21
	select {
	case x = <-c:
		fmt.Println("assign", x)
	}
	arr := []int{0}
	c <- 22
	select {
	case arr[0] = <-c:
	}
	c <- 23
	select {
	case v, ok := <-c:
		fmt.Println(v, ok, arr)
	default:
	}
	c <- 24
	select {
	case <-c:
		fmt.Println("recv only")
	}
	close(c)
	v, ok2 := <-c
	x = <-c
	fmt.Println(v, ok2, x)
	for range c {
		fmt.Println("never")
	}
	d := make(chan int)
	go func() {
		for i := 0; i < 3; i++ {
			d <- i
		}
		close(d)
	}()
	sum := 0
	for v := range d {
		sum += v
	}
	fmt.Println(sum)
}
