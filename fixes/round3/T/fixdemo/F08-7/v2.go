package main

import "fmt"

type S struct{ e interface{}; f func() int }

// identifier destinations, closures, globals, interface destinations
var gx int

func main() {
	c := make(chan int, 4)
	x := 0
	px := &x
	c <- 1
	x = <-c
	fmt.Println(x, *px)
	func() {
		c <- 2
		x = <-c
	}()
	fmt.Println(x, *px)
	c <- 3
	gx = <-c
	fmt.Println(gx)
	var e interface{}
	c <- 4
	e = <-c
	fmt.Println(e)
	s := S{}
	c <- 5
	s.e = <-c
	fmt.Println(s.e)
	es := []interface{}{nil}
	c <- 6
	es[0] = <-c
	fmt.Println(es)
	cf := make(chan func() int, 1)
	cf <- func() int { return 42 }
	s.f = <-cf
	fmt.Println(s.f())
	var _ = 0
	c <- 7
	_ = <-c
	c <- 8
	x += <-c
	fmt.Println(x, *px)
}
