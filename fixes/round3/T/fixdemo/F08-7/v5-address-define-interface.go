package main

import "fmt"

type I interface{ M() int }
type T int

func (t T) M() int { return int(t) }

func main() {
	c := make(chan int, 3)
	c <- 1
	x := <-c
	p := &x
	*p = 3
	fmt.Println(x)
	c <- 4
	x = <-c
	fmt.Println(x, *p)
	var fs []func() int
	for i := 0; i < 2; i++ {
		c <- i
		y := <-c
		fs = append(fs, func() int { y++; return y })
	}
	fmt.Println(fs[0](), fs[0](), fs[1]())
	ct := make(chan T, 2)
	var i I
	ct <- 5
	i = <-ct
	fmt.Println(i.M())
	is := []I{nil}
	ct <- 6
	is[0] = <-ct
	fmt.Println(is[0].M())
	var j I = <-func() chan T { ct <- 7; return ct }()
	fmt.Println(j.M())
	ci := make(chan I, 1)
	ci <- T(8)
	i = <-ci
	fmt.Println(i.M())
	ci <- T(9)
	is[0] = <-ci
	fmt.Println(is[0].M())
}
