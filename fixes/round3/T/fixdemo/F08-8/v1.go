package main

import "fmt"

type S struct {
	v  string
	ok bool
}

var gv string
var gok bool

func main() {
	c := make(chan string, 4)
	x, ok := "", false
	c <- "a"
	_, ok = <-c
	fmt.Println(x, ok)
	c <- "b"
	x, _ = <-c
	fmt.Println(x, ok)
	c <- "c"
	_, _ = <-c
	fmt.Println(len(c))
	s := S{}
	c <- "d"
	s.v, _ = <-c
	fmt.Println(s)
	c <- "e"
	_, s.ok = <-c
	fmt.Println(s)
	c <- "f"
	gv, _ = <-c
	c <- "g"
	_, gok = <-c
	fmt.Println(gv, gok)
	close(c)
	x, _ = <-c
	_, ok = <-c
	fmt.Printf("%q %v\n", x, ok)
	_, s.ok = <-c
	fmt.Println(s)
	v, _ := <-c
	_, k := <-c
	fmt.Printf("%q %v\n", v, k)
	func() {
		c2 := make(chan string, 1)
		c2 <- "clo"
		x, _ = <-c2
	}()
	fmt.Println(x)
}
