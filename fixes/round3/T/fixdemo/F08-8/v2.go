package main

import "fmt"

// blank operands in select clauses
func main() {
	c := make(chan int, 4)
	x, ok := 0, false
	arr := []int{0}
	oks := []bool{false}
	c <- 1
	select {
	case x, _ = <-c:
		fmt.Println("got", x)
	}
	c <- 2
	select {
	case _, ok = <-c:
		fmt.Println("ok", ok)
	}
	c <- 3
	select {
	case _, _ = <-c:
	}
	c <- 4
	select {
	case arr[0], _ = <-c:
	}
	c <- 5
	select {
	case _, oks[0] = <-c:
	default:
	}
	fmt.Println(x, ok, arr, oks, len(c))
	close(c)
	select {
	case x, _ = <-c:
	}
	select {
	case _, ok = <-c:
	}
	select {
	case _, oks[0] = <-c:
	}
	fmt.Println(x, ok, oks)
	select {
	case v, _ := <-c:
		fmt.Println(v)
	}
	select {
	case _, k := <-c:
		fmt.Println(k)
	}
}
