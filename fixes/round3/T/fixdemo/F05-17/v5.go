package main

import "fmt"

type A struct{ id int }
type B struct{ id int }

func main() {
	v := struct {
		A
		B
	}{A{1}, B{2}}
	fmt.Println(v.id)
}
