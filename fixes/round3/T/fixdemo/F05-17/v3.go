package main

import "fmt"

type A struct{ x int }
type B struct{ x int }
type S struct {
	*A
	*B
}

func main() {
	s := S{&A{1}, &B{2}}
	p := &s.x
	fmt.Println(*p)
}
