package main

import "fmt"

type C struct{ x, c int }
type A struct {
	C
	a int
	y int
}
type B struct {
	*C
	b int
	y string
}

// x is declared by S itself, y is ambiguous but never selected, a and b are unique,
// c is ambiguous at depth 2 but selected with explicit paths.
type S struct {
	A
	B
	x string
}

// D hides the deeper fields: D.y (depth 1) against A.y and B.y (depth 2)
type D struct {
	S
	y float64
	E
}

type E struct{ e int }

// the same type at different depths: the shallowest is selected
type F struct {
	C
	G
}
type G struct{ H }
type H struct{ C }

type N struct {
	next *N
	v    int
}
type L struct {
	*N
	name string
}

type I interface{ M() int }
type J interface{ M() int }
type IJ interface {
	I
	J
}
type impl struct{}

func (impl) M() int { return 5 }

type W struct {
	I
	n int
}

func main() {
	s := S{A{C{1, 10}, 2, 3}, B{&C{4, 40}, 5, "y"}, "x"}
	fmt.Println(s.x, s.a, s.b, s.A.y, s.B.y, s.A.x, s.B.x, s.A.c, s.B.c)
	s.a, s.b = 7, 8
	p := &s
	p.x = "px"
	fmt.Println(p.a, p.b, p.x, p.A.C.x)
	d := D{S: s, y: 1.5, E: E{9}}
	fmt.Println(d.y, d.a, d.x, d.e, d.S.A.y)
	f := F{C{1, 2}, G{H{C{3, 4}}}}
	fmt.Println(f.x, f.c, f.G.x, f.H.c)
	l := L{&N{&N{nil, 2}, 1}, "l"}
	fmt.Println(l.v, l.next.v, l.name)
	var ij IJ = impl{}
	fmt.Println(ij.M())
	w := W{impl{}, 1}
	fmt.Println(w.n)
}
