package main

import "fmt"

type A struct{ x int }
type B struct{ x string }
type S struct {
	A
	B
}

func main() {
	s := S{}
	fmt.Println(s.x)
}
