package main

import "fmt"

type A struct{ x, y int }
type B struct{ y, z int }
type M struct {
	A
	B
}
type T struct {
	M
	w int
}

func f(t T) int { return t.y }

func main() {
	fmt.Println(f(T{}))
}
