package main

import "fmt"

type C struct{ x int }
type A struct{ C }
type B struct{ C }
type S struct {
	A
	B
}

func main() {
	s := &S{}
	s.x = 3
	fmt.Println(s.A.x)
}
