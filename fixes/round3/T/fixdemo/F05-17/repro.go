package main

import "fmt"

type A struct {
	na int
	M  func()
}

type B struct {
	nb int
	M  func()
}

type S struct {
	ns int
	A
	B
}

func main() {
	v := S{}
	v.A.M = func() { fmt.Println("A.M") }
	v.B.M = func() { fmt.Println("B.M") }
	v.M()
	fmt.Println(v.ns)
}
