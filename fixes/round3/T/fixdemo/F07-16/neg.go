package main

import (
	"fmt"

	"github.com/traefik/yaegi/fixdemo/hp"
)

func g(a int, xs ...int) int { return a + len(xs) }

func h(xs ...interface{}) int { return len(xs) }

func main() {
	var ns []int
	xs := []int{1, 2}
	fmt.Println(hp.F(1, ns...), hp.F(1, xs...), hp.F(1), hp.F(1, 2, 3), hp.F(1, []int{}...))
	fmt.Println(g(1, ns...), g(1, xs...), g(1), g(1, 2, 3), g(1, []int(nil)...))
	fmt.Println(h(nil), h(nil, nil), h([]interface{}{nil}...), h())
	fmt.Println(fmt.Sprint(nil), fmt.Sprint(nil, nil))
	fmt.Println(append([]int(nil), xs...), append(xs, ns...))
}
