package main

import (
	"fmt"
	"os"

	"github.com/traefik/yaegi/fixdemo/hp"
)

func g(a int, xs ...int) int { return a + len(xs) }

func main() {
	fmt.Println(hp.F(6, nil...))
	fmt.Println(g(6, nil...))
	fmt.Fprintln(os.Stdout, nil...)
}
