package main

import "fmt"

func g(a int, xs ...int) int { return a + len(xs) }

func main() {
	fmt.Println(g(nil...))
}
