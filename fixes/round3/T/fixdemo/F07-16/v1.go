package main

import (
	"errors"
	"fmt"
	"path/filepath"
	"strings"

	"github.com/traefik/yaegi/fixdemo/hp"
)

type T struct{ n int }

func (t *T) m(xs ...string) int { return t.n + len(xs) }

func isNil(xs ...interface{}) bool { return xs == nil }
func ptrs(ps ...*T) int            { return len(ps) }
func only(xs ...int) bool          { return xs == nil }

func main() {
	fmt.Println(isNil(nil...), isNil(), isNil(nil), ptrs(nil...), ptrs(nil), only(nil...))
	t := &T{3}
	fmt.Println(t.m(nil...), t.m("a"))
	f := func(s string, xs ...float64) string { return fmt.Sprint(s, xs == nil) }
	fmt.Println(f("lit", nil...))
	fmt.Println(fmt.Sprint(nil...) == "", fmt.Sprintf("%d", nil...))
	fmt.Println(errors.Join(nil...) == nil, filepath.Join(nil...) == "")
	fmt.Println(strings.NewReplacer(nil...).Replace("abc"))
	c := hp.NewCounter(1)
	fmt.Println(c.AddAll(nil...), hp.G(func() int { return 2 }, nil...))
	defer fmt.Println(hp.F(7, nil...))
	var fv func(int, ...int) int = hp.F
	fmt.Println(fv(8, nil...))
	fmt.Println(append([]int{1}, nil...))
}
