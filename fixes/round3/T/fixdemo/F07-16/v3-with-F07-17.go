package main

import (
	"fmt"

	"github.com/traefik/yaegi/fixdemo/hp"
)

type V struct{ n int }

func (v V) String() string { return fmt.Sprint("V", v.n) }

func cb() int { return 7 }

func g(a int, xs ...int) int { fmt.Println("g", a, xs == nil); return a }

func main() {
	var fv func(func() int, ...int) int = hp.G
	fmt.Println(fv(cb, nil...))
	var sv func(fmt.Stringer, ...int) string = hp.S
	fmt.Println(sv(V{1}, nil...))
	var jv func(string, ...fmt.Stringer) string = hp.J
	fmt.Println(jv("-", nil...) == "")
	defer g(1, nil...)
	defer hp.F(2, nil...)
	done := make(chan bool)
	go func() { g(3, nil...); done <- true }()
	<-done
	c := hp.NewCounter(1)
	defer c.AddAll(nil...)
}
