package main

import "fmt"

type T struct{ n int }

func main() {
	s := []int{1}
	fmt.Println(append(s, nil...), append([]int(nil), nil...) == nil)
	ps := []*T{{1}}
	ps = append(ps, nil...)
	fmt.Println(len(ps))
	ps = append(ps, nil)
	fmt.Println(len(ps), ps[1] == nil)
	es := []interface{}{1}
	es = append(es, nil...)
	fmt.Println(es)
	bs := append([]byte("a"), nil...)
	fmt.Println(string(bs))
	var e []error
	e = append(e, nil...)
	fmt.Println(e == nil)
}
