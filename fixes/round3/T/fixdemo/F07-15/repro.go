package main

import (
	"bytes"
	"fmt"
	"time"
)

func f(b1, b2 *bytes.Buffer) {
	c := b1
	defer c.WriteString("d")
	c = b2
}

func main() {
	b1, b2 := &bytes.Buffer{}, &bytes.Buffer{}
	f(b1, b2)
	fmt.Printf("%q %q\n", b1.String(), b2.String())
	d := time.Duration(5)
	s := d.String
	d = 7
	fmt.Println(s(), d)
}
