package main

import (
	"bytes"
	"fmt"

	"github.com/traefik/yaegi/fixdemo/hp"
)

type E struct{ *hp.Counter }

type EV struct {
	n int
	hp.Val
}

type T struct{ bytes.Buffer }

func main() {
	// value receiver through a host pointer: *c is copied at the evaluation
	c := hp.NewCounter(1)
	get := c.Get
	c.N = 20
	fmt.Println(get(), c.Get())
	defer func(n int) { fmt.Println("deferred", n) }(c.Get())
	func() {
		defer fmt.Println("Get deferred")
		d := hp.NewCounter(7)
		defer d.Get()
		g := d.Get
		d = nil
		fmt.Println(g())
	}()
	// embedded host values
	e := E{hp.NewCounter(5)}
	ea := e.Add
	e.Counter = hp.NewCounter(50)
	fmt.Println(ea(1), e.N)
	ev := EV{1, 2}
	es := ev.String
	ei := ev.Inc
	ev.Val = 10
	fmt.Println(es(), ei(), ev.Val)
	pe := &ev
	ps := pe.String
	pe.Val = 20
	pe = nil
	fmt.Println(ps())
	t := &T{}
	tw := t.WriteString
	tl := t.Len
	tw("abc")
	t = &T{}
	fmt.Println(tl(), t.Len())
	// interface holding a host value
	var st fmt.Stringer = hp.Val(3)
	sf := st.String
	st = hp.Val(4)
	fmt.Println(sf(), st.String())
	var g hp.Getter = c
	gg := g.Get
	g = hp.NewCounter(99)
	fmt.Println(gg(), g.Get())
}
