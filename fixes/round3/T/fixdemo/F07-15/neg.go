package main

import (
	"bytes"
	"fmt"
	"os"
	"strings"
	"time"

	"github.com/traefik/yaegi/fixdemo/hp"
)

type T struct{ bytes.Buffer }

type E struct{ *hp.Counter }

// forms which must keep working: direct calls, sharing through pointers, embedded host values
func main() {
	var b bytes.Buffer
	w := b.WriteString
	b.WriteString("a")
	w("b")
	b.WriteString("c")
	fmt.Println(b.String())
	c := hp.NewCounter(1)
	add := c.Add
	c.N = 10
	fmt.Println(add(1), c.N)
	get := c.Get
	fmt.Println(get(), c.Get())
	t := &T{}
	tw := t.WriteString
	tw("emb")
	fmt.Println(t.String(), t.Len())
	e := E{hp.NewCounter(5)}
	ea := e.Add
	fmt.Println(ea(1), e.N)
	var tv T
	tvw := tv.WriteString
	tvw("x")
	fmt.Println(tv.String())
	d := 2 * time.Hour
	fmt.Println(d.String(), d.Hours())
	for i := 0; i < 3; i++ {
		v := hp.Val(i)
		defer fmt.Println(v.String())
	}
	fmt.Fprintln(os.Stdout, strings.NewReader("abc").Len())
	var st fmt.Stringer = hp.Val(3)
	sf := st.String
	fmt.Println(sf(), st.String())
	var bp *bytes.Buffer
	func() {
		defer func() { fmt.Println("recovered:", recover() != nil) }()
		f := bp.Len
		fmt.Println(f())
	}()
}
