package main

import (
	"fmt"
	"strings"
	"time"

	"github.com/traefik/yaegi/fixdemo/hp"
)

func deferred(c1, c2 *hp.Counter) {
	c := c1
	defer c.Add(1)
	c = c2
	defer c.Add(10)
	c = c1
}

func main() {
	c1, c2 := hp.NewCounter(0), hp.NewCounter(0)
	deferred(c1, c2)
	fmt.Println(c1.N, c2.N)

	// method value of a pointer variable which is then rebound
	c := c1
	add := c.Add
	c = c2
	fmt.Println(add(100), c1.N, c2.N)

	// value receiver: the receiver is copied at the evaluation
	v := hp.Val(1)
	str, plus := v.String, v.Plus
	v = 2
	fmt.Println(str(), plus(10), v.String())

	// value receiver through a pointer: *p is copied at the evaluation
	p := &v
	ps := p.String
	*p = 3
	fmt.Println(ps(), p.String())

	// pointer receiver of an addressable variable: the variable is shared
	inc := v.Inc
	v = 10
	fmt.Println(inc(), v)

	// elements
	vs := []hp.Val{7, 8}
	s0 := vs[0].String
	vs[0] = 9
	fmt.Println(s0())

	// deferred in a loop
	func() {
		var sb *strings.Builder
		sbs := []*strings.Builder{{}, {}}
		defer func() { fmt.Printf("%q %q\n", sbs[0].String(), sbs[1].String()) }()
		for i, b := range sbs {
			sb = b
			defer sb.WriteString(fmt.Sprint("w", i))
		}
		sb = nil
	}()

	d := time.Duration(5)
	ds := d.String
	d = 7
	fmt.Println(ds())
	t := time.Unix(0, 0).UTC()
	ty := t.Year
	t = t.AddDate(30, 0, 0)
	fmt.Println(ty(), t.Year())
}
