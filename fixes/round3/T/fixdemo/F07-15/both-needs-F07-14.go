package main

import (
	"fmt"
	"sync"

	"github.com/traefik/yaegi/fixdemo/hp"
)

type H struct {
	c *hp.Counter
	v hp.Val
}

// method values of pointers made by the script (F07-14) whose variable is rebound (F07-15)
func main() {
	// go statement
	var wg sync.WaitGroup
	cs := []*hp.Counter{hp.NewCounter(1), hp.NewCounter(2), hp.NewCounter(3)}
	for _, k := range cs {
		wg.Add(1)
		go func(f func(int) int) { defer wg.Done(); f(5) }(k.Add)
	}
	wg.Wait()
	fmt.Println(cs[0].N, cs[1].N, cs[2].N)
	// go statement on a method: the receiver is the one evaluated by the statement
	wg1, wg2 := &sync.WaitGroup{}, &sync.WaitGroup{}
	wg1.Add(1)
	wg2.Add(2)
	w := wg1
	go w.Done()
	w = wg2
	wg1.Wait()
	fmt.Println("wg1 done")

	c1, c2 := hp.NewCounter(0), hp.NewCounter(0)
	// fields and elements
	h := H{c: c1, v: 5}
	hadd := h.c.Add
	hstr := h.v.String
	h.c, h.v = c2, 6
	fmt.Println(hadd(1000), c1.N, c2.N, hstr())
	cp := &hp.Counter{N: 3}
	add, get := cp.Add, cp.Get
	cp = &hp.Counter{N: 30}
	fmt.Println(add(1), get(), cp.N)
}
