package main

import (
	"fmt"
	"time"

	"github.com/traefik/yaegi/fixdemo/hp"
)

func try(name string, f func()) {
	defer func() { fmt.Println(name, "panicked:", recover() != nil) }()
	f()
}

func main() {
	var c *hp.Counter
	try("nil value method", func() { fmt.Println(c.Get()) })
	try("nil method value", func() { g := c.Get; fmt.Println(g()) })
	var st fmt.Stringer
	try("nil interface", func() { s := st.String; fmt.Println(s()) })
	var pd *time.Duration
	try("nil duration", func() { fmt.Println(pd.String()) })
	d := time.Second
	pd = &d
	s := pd.String
	*pd = time.Minute
	fmt.Println(s(), pd.String())
	// direct calls in a loop keep seeing the current value
	v := hp.Val(0)
	for i := 0; i < 3; i++ {
		v.Inc()
		fmt.Print(v.String(), " ")
	}
	fmt.Println()
	k := hp.NewCounter(1)
	var adds []func(int) int
	for i := 0; i < 2; i++ {
		adds = append(adds, k.Add)
		k = hp.NewCounter(2)
	}
	fmt.Println(adds[0](10), adds[1](10))
}
