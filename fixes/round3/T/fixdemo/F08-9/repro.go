package main

import "fmt"

type S struct {
	v  int
	ok bool
}

func main() {
	c := make(chan int, 2)
	arr := []int{0, 0}
	oks := []bool{false, false}
	s := S{}
	x, ok := 0, false
	_, _ = x, ok
	c <- 5
	select {
	case arr[1], oks[1] = <-c:
	}
	c <- 6
	select {
	case s.v, s.ok = <-c:
		x = 1
	}
	fmt.Println(x, ok, arr, oks, s)
}
