package main

import (
	"fmt"
	"time"
)

type R struct {
	vals [2]string
	oks  [2]bool
}

func main() {
	c := make(chan string)
	quit := make(chan struct{})
	r := &R{}
	go func() {
		c <- "one"
		c <- "two"
		close(c)
	}()
	n := 0
	for i := 0; i < 3; i++ {
		select {
		case r.vals[i%2], r.oks[i%2] = <-c:
			n++
			fmt.Println(i, r.vals, r.oks)
		case <-quit:
			fmt.Println("quit")
		case <-time.After(5 * time.Second):
			fmt.Println("timeout")
		}
	}
	fmt.Println(n, *r)
	// in a closure, with captured destinations and a send clause
	out := make(chan int, 1)
	in := make(chan int, 1)
	vs := []int{0}
	bs := []bool{false}
	f := func() {
		select {
		case vs[0], bs[0] = <-in:
			fmt.Println("recv")
		case out <- 3:
			fmt.Println("send")
		}
	}
	f()
	in <- 9
	f()
	fmt.Println(vs, bs, len(out))
	var e []interface{} = []interface{}{nil}
	in <- 10
	select {
	case e[0], bs[0] = <-in:
	}
	fmt.Println(e, bs)
}
