package main

import "fmt"

type S struct {
	v  int
	ok bool
}

func ch(c chan int) chan int { fmt.Println("chan evaluated"); return c }
func idx(i int) int         { fmt.Println("index evaluated", i); return i }

func main() {
	c := make(chan int, 4)
	d := make(chan int, 4)
	arr := []int{0, 0, 0}
	oks := []bool{false, false, false}
	p := &S{}
	m := map[string]int{}
	mb := map[string]bool{}
	// the channel expression is evaluated once, the destinations of the selected clause only, after the receive
	c <- 1
	select {
	case arr[idx(0)], oks[idx(0)] = <-ch(d):
		fmt.Println("d")
	case arr[idx(1)], oks[idx(1)] = <-ch(c):
		fmt.Println("c")
	}
	fmt.Println(arr, oks)
	c <- 2
	select {
	case p.v, p.ok = <-c:
	}
	fmt.Println(*p)
	c <- 3
	select {
	case m["a"] = <-c:
		fmt.Println("map")
	}
	fmt.Println(m, mb)
	x, ok := 0, false
	c <- 4
	select {
	case x, ok = <-c:
		fmt.Println("ident", x, ok)
	}
	c <- 5
	select {
	case arr[2], ok = <-c:
	}
	c <- 6
	select {
	case x, oks[2] = <-c:
	}
	fmt.Println(x, ok, arr, oks)
	close(c)
	select {
	case arr[0], oks[0] = <-c:
		fmt.Println("closed")
	}
	fmt.Println(arr, oks)
	select {
	case arr[0], oks[0] = <-d:
		fmt.Println("no")
	default:
		fmt.Println("default")
	}
}
