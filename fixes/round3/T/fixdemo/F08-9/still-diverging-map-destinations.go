package main

import "fmt"

func main() {
	c := make(chan int, 4)
	m := map[string]int{}
	mb := map[string]bool{}
	c <- 3
	m["a"], mb["a"] = <-c
	fmt.Println(m, mb)
	var e interface{}
	var ok bool
	c <- 4
	e, ok = <-c
	fmt.Println(e, ok)
	var v interface{} = 1
	m["b"], mb["b"] = v.(int)
	fmt.Println(m, mb)
	m["c"], mb["c"] = m["a"]
	fmt.Println(m, mb)
}
