// Command hprun runs a script with the standard library and the host package hp.
package main

import (
	"fmt"
	"os"
	"reflect"

	"github.com/traefik/yaegi/fixdemo/hp"
	"github.com/traefik/yaegi/interp"
	"github.com/traefik/yaegi/stdlib"
)

func main() {
	i := interp.New(interp.Options{})
	if err := i.Use(stdlib.Symbols); err != nil {
		panic(err)
	}
	if err := i.Use(interp.Exports{"github.com/traefik/yaegi/fixdemo/hp/hp": {
		"Counter":    reflect.ValueOf((*hp.Counter)(nil)),
		"NewCounter": reflect.ValueOf(hp.NewCounter),
		"Val":        reflect.ValueOf((*hp.Val)(nil)),
		"Getter":     reflect.ValueOf((*hp.Getter)(nil)),
		"F":          reflect.ValueOf(hp.F),
		"G":          reflect.ValueOf(hp.G),
		"S":          reflect.ValueOf(hp.S),
		"J":          reflect.ValueOf(hp.J),
		"Str":        reflect.ValueOf(hp.Str),
	}}); err != nil {
		panic(err)
	}
	if _, err := i.EvalPath(os.Args[1]); err != nil {
		fmt.Println(err)
		os.Exit(1)
	}
}
