package main

import "fmt"

type A struct{ n int }

func (a A) String() string { return fmt.Sprint("A", a.n) }

// values held in an interface handed to fmt (the wrapper is built by the call)
func show(x interface{}) { fmt.Println(x); fmt.Printf("%v %s\n", x, x) }

func main() {
	v := A{1}
	var x interface{} = v
	v.n += 10
	fmt.Println(x, v)
	show(x)
	func() {
		v := A{5}
		x = v
		v.n = 6
	}()
	show(x)
	defer fmt.Println(x)
}
