package main

import (
	"fmt"
	"io"
)

type A struct{ n int }

func (a A) String() string { return fmt.Sprint("A", a.n) }

type P struct{ n int }

func (p *P) String() string { return fmt.Sprint("P", p.n) }

type X struct{ n int }

type I interface{ String() string }

// assertions which worked: pointer operands share the value, failed assertions, script interfaces,
// concrete types, host values
func main() {
	p := &P{1}
	var x interface{} = p
	p.n = 2
	s, ok := x.(fmt.Stringer)
	fmt.Println(s.String(), ok)
	p.n = 3
	fmt.Println(s.String())
	var y interface{} = X{1}
	_, ok = y.(fmt.Stringer)
	fmt.Println(ok)
	_, ok = y.(io.Writer)
	fmt.Println(ok)
	func() {
		defer func() { fmt.Println("recovered:", recover() != nil) }()
		_ = y.(fmt.Stringer)
	}()
	var z interface{}
	_, ok = z.(fmt.Stringer)
	fmt.Println(ok)
	v := A{1}
	var xv interface{} = v
	v.n = 5
	a, ok := xv.(A)
	fmt.Println(a, ok, a.n)
	i, ok := xv.(I)
	fmt.Println(i.String(), ok)
	var st fmt.Stringer = v
	v.n = 6
	fmt.Println(st.String())
	var e interface{} = fmt.Errorf("host error")
	err, ok := e.(error)
	fmt.Println(err, ok)
	st2, ok := e.(fmt.Stringer)
	fmt.Println(st2, ok)
	xv = 3
	_, ok = xv.(fmt.Stringer)
	fmt.Println(ok)
}
