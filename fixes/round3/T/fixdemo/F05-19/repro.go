package main

import "fmt"

type A struct{ n int }

func (a A) String() string { return fmt.Sprint("A", a.n) }

func main() {
	v := A{1}
	var x interface{} = v
	v.n += 10
	s, ok := x.(fmt.Stringer)
	fmt.Println(s, ok)
	fmt.Println(s.String(), v.String())
}
