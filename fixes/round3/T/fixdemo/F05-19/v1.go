package main

import (
	"fmt"
	"io"
	"os"
)

type A struct{ n int }

func (a A) String() string { return fmt.Sprint("A", a.n) }

type W struct{ pre string }

func (w W) Write(b []byte) (int, error) { return os.Stdout.Write(append([]byte(w.pre), b...)) }

type E struct{ code int }

func (e E) Error() string { return fmt.Sprint("E", e.code) }

type N int

func (n N) String() string { return fmt.Sprint("N", int(n)) }

// the assertion in another function than the conversion
func str(x interface{}) string {
	if s, ok := x.(fmt.Stringer); ok {
		return s.String()
	}
	return "?"
}

func mk() interface{} {
	a := A{7}
	var x interface{} = a
	a.n = 70
	return x
}

func main() {
	v := A{1}
	var x interface{} = v
	v.n = 2
	fmt.Println(str(x), str(mk()), str(3))
	// without the comma ok form
	s := x.(fmt.Stringer)
	v.n = 3
	fmt.Println(s.String())
	v.n = 4
	// other host interfaces
	w := W{"> "}
	var y interface{} = w
	w.pre = "later "
	if wr, ok := y.(io.Writer); ok {
		fmt.Fprintln(wr, "hello")
	}
	e := E{1}
	var z interface{} = e
	e.code = 2
	err, ok := z.(error)
	fmt.Println(err, ok, err.Error())
	// non struct type
	n := N(5)
	var xn interface{} = n
	n = 6
	sn, ok := xn.(fmt.Stringer)
	fmt.Println(sn.String(), ok)
	// in a slice and a map
	xs := []interface{}{v, n}
	v.n, n = 100, 200
	for _, e := range xs {
		fmt.Println(e.(fmt.Stringer).String())
	}
	m := map[string]interface{}{"a": v}
	v.n = 1000
	fmt.Println(m["a"].(fmt.Stringer).String())
	// loop variable
	var ss []fmt.Stringer
	for i := 0; i < 3; i++ {
		a := A{i}
		var xi interface{} = a
		a.n += 10
		ss = append(ss, xi.(fmt.Stringer))
	}
	fmt.Println(ss[0].String(), ss[1].String(), ss[2].String())
}
