package main

import (
	"bytes"
	"fmt"
	"strings"
	"time"

	"github.com/traefik/yaegi/fixdemo/hp"
)

// forms which worked before the repair
func main() {
	b := &bytes.Buffer{}
	b.WriteString("x")
	fmt.Fprintf(b, "%d", 1)
	fmt.Println(b.String(), b.Len())
	cp := hp.NewCounter(3)
	mv := cp.Add
	fmt.Println(mv(5), cp.Get())
	var buf bytes.Buffer
	w := buf.WriteString
	w("abc")
	fmt.Println(buf.String())
	d := 3 * time.Second
	s := d.String
	fmt.Println(s())
	r := strings.NewReplacer("a", "b")
	rep := r.Replace
	fmt.Println(rep("aaa"))
	b.WriteString("!")
	fmt.Println(b.String())
	defer b.Reset()
	defer func() { fmt.Println(b.String()) }()
	defer b.WriteString("deferred")
	done := make(chan bool)
	go func() { cp.Add(1); done <- true }()
	<-done
	fmt.Println(cp.N)
	var gt hp.Getter = cp
	get := gt.Get
	fmt.Println(get())
}
