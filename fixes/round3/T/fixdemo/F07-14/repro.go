package main

import (
	"bytes"
	"fmt"

	"github.com/traefik/yaegi/fixdemo/hp"
)

func main() {
	b := &bytes.Buffer{}
	w := b.WriteString
	w("x")
	w("y")
	fmt.Println(b.String())

	cp := &hp.Counter{N: 3}
	mv := cp.Add
	fmt.Println(mv(5), cp.N)
}
