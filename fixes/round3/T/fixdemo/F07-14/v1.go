package main

import (
	"bytes"
	"fmt"
	"strings"
	"sync"

	"github.com/traefik/yaegi/fixdemo/hp"
)

type W struct {
	b  *bytes.Buffer
	cs []*hp.Counter
}

var gmv = (&hp.Counter{N: 100}).Add

func apply(f func(int) int, n int) int { return f(n) }

func main() {
	// var declaration, assignment, struct field, slice element, argument, return value, closure
	cp := &hp.Counter{N: 3}
	var mv func(int) int = cp.Add
	fmt.Println(mv(1))
	var mv2 func(int) int
	mv2 = cp.Add
	fmt.Println(mv2(1))
	mv3 := cp.AddAll
	fmt.Println(mv3(1, 2), mv3(), mv3([]int{4}...))
	w := W{b: new(bytes.Buffer), cs: []*hp.Counter{{N: 1}, {N: 2}}}
	ws := w.b.WriteString
	ws("ab")
	wb := w.b.WriteByte
	_ = wb('c')
	fmt.Println(w.b.String())
	add := w.cs[1].Add
	fmt.Println(add(10), w.cs[1].N)
	fmt.Println(apply(cp.Add, 7))
	fs := []func(int) int{cp.Add, w.cs[0].Add}
	fmt.Println(fs[0](1), fs[1](1))
	mk := func() func(int) int { c := &hp.Counter{N: 50}; return c.Add }
	fmt.Println(mk()(1))
	fmt.Println(gmv(1))
	// value receiver method through a script-made pointer
	get := cp.Get
	fmt.Println(get(), cp.Get())
	// other host types
	sb := &strings.Builder{}
	wr := sb.WriteRune
	wr('z')
	ln := sb.Len
	fmt.Println(sb.String(), ln())
	mu := &sync.Mutex{}
	lock, unlock := mu.Lock, mu.Unlock
	lock()
	unlock()
	v := new(hp.Val)
	inc := v.Inc
	inc()
	fmt.Println(inc(), *v)
	str := v.String
	fmt.Println(str())
}
