#!/bin/bash
# usage: mk.sh <id> <name> <top-level decls> <body statements>
# writes fixdemo/<id>/<name>.go ; body() is called from main when name starts with "ok" (valid program)
d=/tmp/fixwt3-M/fixdemo/$1; mkdir -p $d
call=""
case "$2" in ok*) call="body()";; esac
cat > $d/$2.go <<EOT
package main

import "fmt"

var g0 = ginit()

func ginit() int {
	fmt.Println("GVAR")
	return 1
}

func init() {
	fmt.Println("INIT")
}

func main() {
	fmt.Println("MARK")
	$call
}

$3

func body() {
$4
}
EOT
