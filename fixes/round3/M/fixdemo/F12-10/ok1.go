package main

import (
	"fmt"
	"net/http"
	"os"
	"strings"
)

type A [3]int
type SL []string
type M map[string][]int
type Str string
type Box[T any] struct{ v T }
type Pair[K comparable, V any] struct {
	k K
	v V
}

func (b Box[T]) Get() T { return b.v }

func id[T any](x T) T { return x }
func mapf[T, U any](xs []T, f func(T) U) []U {
	var r []U
	for _, x := range xs {
		r = append(r, f(x))
	}
	return r
}

type S struct {
	a  A
	pa *[2]int
	m  M
	fs []func(int) int
}

func arr() [2]int { return [2]int{7, 8} }

func main() {
	a := A{1, 2, 3}
	p := &a
	pp := &[2]string{"x", "y"}
	sl := SL{"a", "b"}
	m := M{"k": {1, 2}}
	st := Str("hey")
	fmt.Println(a[0], p[1], pp[1], sl[1], m["k"][1], st[0], "lit"[2], arr()[1], len(os.Args[0]) > 0)
	p[2] = 9
	pp[0] = "z"
	m["n"] = []int{3}
	m["n"][0]++
	fmt.Println(a, *pp, m)
	s := S{a: a, pa: &[2]int{5, 6}, m: m, fs: []func(int) int{func(x int) int { return x * 2 }}}
	fmt.Println(s.a[2], s.pa[1], s.m["n"][0], s.fs[0](4))
	h := http.Header{"K": {"v"}}
	fmt.Println(h["K"][0], strings.Fields("a b c")[2], []byte("xyz")[1], strings.Split("a,b", ",")[0][0])
	mm := map[[2]int]map[string]*A{{1, 2}: {"q": p}}
	fmt.Println(mm[[2]int{1, 2}]["q"][0])
	b := Box[int]{v: 3}
	pr := Pair[string, int]{"a", 1}
	fmt.Println(b.Get(), pr.k, pr.v, id[string]("s"), id(4), mapf[int, string]([]int{1}, func(i int) string { return fmt.Sprint(i) }))
	var e interface{} = []int{1, 2}
	fmt.Println(e.([]int)[1])
	grid := [2][2]int{{1, 2}, {3, 4}}
	pg := &grid
	fmt.Println(grid[1][0], pg[1][1], (*pg)[0][1])
	v, ok := m["zz"]
	fmt.Println(v, ok)
	for i := range sl {
		sl[i] += "!"
	}
	fmt.Println(sl)
}
