package main

import "fmt"

var g0 = ginit()

func ginit() int {
	fmt.Println("GVAR")
	return 1
}

func init() {
	fmt.Println("INIT")
}

func main() {
	fmt.Println("MARK")
	
}

type T struct{ x int }

func body() {
	var t T
	_ = t[0]
}
