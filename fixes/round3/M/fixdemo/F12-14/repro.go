package main

import "fmt"

var g0 = ginit()

func ginit() int {
	fmt.Println("GVAR")
	return 1
}

func init() {
	fmt.Println("INIT")
}

func main() {
	fmt.Println("MARK")
	
}

type point struct{ X int }
func (p *point) Move(dx int) { p.X += dx }
type mover interface {
	Move(dx int)
}

func body() {
	var p point
	var mv mover = p
	_ = mv
}
