package main

import (
	"bytes"
	"fmt"
	"io"
	"sort"
	"strings"
)

type mover interface{ Move(dx int) }
type namer interface{ Name() string }
type both interface {
	mover
	namer
}

type point struct{ X int }

func (p *point) Move(dx int)  { p.X += dx }
func (p point) Name() string  { return fmt.Sprint("p", p.X) }

type E1 struct{ *point }
type E2 struct{ point }
type E3 struct{ E1 }
type E4 struct {
	n int
	*E2
}
type named point
type L []int

func (l L) Len() int           { return len(l) }
func (l L) Less(i, j int) bool { return l[i] < l[j] }
func (l L) Swap(i, j int)      { l[i], l[j] = l[j], l[i] }

type W struct{ io.Writer }
type Wm struct{ mover }
type G[T any] struct{ v T }

func (g *G[T]) Set(v T) { g.v = v }
func (g G[T]) Get() T   { return g.v }

type setter[T any] interface{ Set(T) }
type getter[T any] interface{ Get() T }

func use(m mover) { m.Move(1) }
func nm(n namer) string { return n.Name() }
func mk() mover { return &point{} }
func (p *point) self() mover { return p }

func main() {
	p := point{1}
	var m mover = &p
	m.Move(2)
	var n namer = p
	var n2 namer = &p
	var b both = &p
	fmt.Println(p.X, n.Name(), n2.Name(), b.Name())
	var m1 mover = E1{&p}
	var m2 mover = &E2{}
	var m3 mover = E3{E1{&p}}
	var m4 mover = E4{1, &E2{}}
	var m5 mover = &E4{1, &E2{}}
	var n3 namer = E2{point{5}}
	var n4 namer = E3{E1{&p}}
	m1.Move(1)
	m2.Move(1)
	m3.Move(1)
	m4.Move(1)
	m5.Move(1)
	fmt.Println(p.X, n3.Name(), n4.Name(), nm(E1{&p}), nm(p), nm(&p))
	use(&p)
	use(E1{&p})
	use(mk())
	use(p.self())
	ms := []mover{&p, E1{&p}, &E2{}}
	mm := map[string]mover{"a": &p}
	fmt.Println(len(ms), len(mm), p.X, mover(&p) != nil)
	l := L{3, 1, 2}
	sort.Sort(l)
	var si sort.Interface = l
	var sp sort.Interface = &l
	fmt.Println(l, si.Len(), sp.Len())
	var buf bytes.Buffer
	var w io.Writer = &buf
	w2 := W{&buf}
	var w3 io.Writer = w2
	fmt.Fprint(w, "a")
	fmt.Fprint(w3, "b")
	var sr io.Reader = strings.NewReader("x")
	_ = sr
	var wm mover = Wm{&p}
	wm.Move(1)
	fmt.Println(buf.String(), p.X)
	g := &G[int]{}
	var st setter[int] = g
	var gt getter[int] = *g
	var gt2 getter[int] = g
	st.Set(4)
	fmt.Println(gt.Get(), gt2.Get())
	var e interface{} = &p
	if _, ok := e.(mover); ok {
		fmt.Println("pointer is a mover")
	}
	var st2 fmt.Stringer
	_ = st2
	var err error = fmt.Errorf("x")
	fmt.Println(err)
}
