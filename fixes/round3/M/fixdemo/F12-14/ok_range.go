package main

import (
	"fmt"
	"sort"
	"strings"
)

type A [3]int
type SL []string
type M map[string]int
type S struct {
	xs []int
	pa *[2]int
}

func gen[T any](xs []T) int {
	n := 0
	for range xs {
		n++
	}
	return n
}

func vs(xs ...int) int {
	t := 0
	for _, x := range xs {
		t += x
	}
	return t
}

func main() {
	a := A{1, 2, 3}
	pa := &a
	pb := &[2]string{"x", "y"}
	for i, v := range a {
		fmt.Print(i, v, " ")
	}
	for i, v := range pa {
		fmt.Print(i, v, " ")
	}
	for i := range pb {
		fmt.Print(i, " ")
	}
	for _, v := range pb {
		fmt.Print(v, " ")
	}
	for i, s := range (SL{"a", "b"}) {
		fmt.Print(i, s, " ")
	}
	m := M{"k": 1, "j": 2}
	keys := []string{}
	for k := range m {
		keys = append(keys, k)
	}
	sort.Strings(keys)
	fmt.Print(keys, " ")
	for i, r := range "héy" {
		fmt.Print(i, string(r), " ")
	}
	for i := range 3 {
		fmt.Print(i, " ")
	}
	for range 2 {
		fmt.Print("r ")
	}
	n := 2
	for i := range n {
		fmt.Print(i, " ")
	}
	ch := make(chan int, 2)
	ch <- 1
	ch <- 2
	close(ch)
	for v := range ch {
		fmt.Print(v, " ")
	}
	s := S{xs: []int{7, 8}, pa: &[2]int{5, 6}}
	for _, x := range s.xs {
		fmt.Print(x, " ")
	}
	for _, x := range s.pa {
		fmt.Print(x, " ")
	}
	for _, f := range strings.Fields("a b") {
		fmt.Print(f, " ")
	}
	for i, b := range []byte("ab") {
		fmt.Print(i, b, " ")
	}
	for _, row := range ([][]int{{1}, {2, 3}}) {
		for _, c := range row {
			fmt.Print(c, " ")
		}
	}
	for k, v := range (map[int][]string{1: {"z"}}) {
		fmt.Print(k, v, " ")
	}
	fmt.Println(gen([]int{1, 2}), gen([]string{}), vs(1, 2, 3))
}
