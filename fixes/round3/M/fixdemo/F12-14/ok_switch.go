package main

import (
	"fmt"
	"net/http"
	"os"
	"reflect"
	"time"
)

type Color int

const (
	Red Color = iota
	Green
	Blue
)

type St struct{ a int }
type Str string

func f() int { return 2 }

func sw(n int) string {
	switch n {
	case 0:
		return "zero"
	case 1, 2, 3:
		return "small"
	case 10 - 6, 5:
		return "calc"
	case 'a':
		return "rune"
	case 1e2:
		return "hundred"
	default:
		return "other"
	}
}

func main() {
	fmt.Println(sw(0), sw(2), sw(4), sw(5), sw(97), sw(100), sw(7))
	var i8 int8 = 5
	switch i8 {
	case 5:
		fmt.Println("i8")
	case -128, 127:
	}
	var u uint = 3
	switch u {
	case 1 << 1, 3:
		fmt.Println("u")
	}
	var fl float64 = 2
	switch fl {
	case 1, 2.0:
		fmt.Println("fl")
	case 2.5:
	}
	c := Green
	switch c {
	case Red:
	case Green, Blue:
		fmt.Println("color")
	case 7:
	}
	s := "b"
	switch s {
	case "a", "c":
	case "b":
		fmt.Println("str")
	}
	ms := Str("x")
	switch ms {
	case "x":
		fmt.Println("Str")
	case Str("y"):
	}
	b := true
	switch b {
	case true:
		fmt.Println("bool")
	case false:
	}
	switch x := 3; x > 2 {
	case true:
		fmt.Println("cmp")
	}
	st := St{1}
	switch st {
	case St{1}:
		fmt.Println("struct")
	case St{2}:
	}
	p := &st
	switch p {
	case nil:
	case &st:
		fmt.Println("ptr")
	}
	var err error
	switch err {
	case nil:
		fmt.Println("nil err")
	case os.ErrNotExist:
	}
	d := time.Second
	switch d {
	case time.Second:
		fmt.Println("dur")
	case 5, time.Minute:
	}
	m := http.MethodGet
	switch m {
	case http.MethodGet, http.MethodPost:
		fmt.Println("method")
	case "PUT":
	}
	var sig os.Signal = os.Interrupt
	switch sig {
	case os.Interrupt, os.Kill:
		fmt.Println("sig")
	}
	k := reflect.Int
	switch k {
	case reflect.Int, reflect.Int8:
		fmt.Println("kind")
	case reflect.String:
	}
	switch f() {
	case f():
		fmt.Println("call")
		fallthrough
	case 9:
		fmt.Println("ft")
	}
	arr := [2]int{1, 2}
	switch arr {
	case [2]int{1, 2}:
		fmt.Println("arr")
	}
	ch := make(chan int)
	switch ch {
	case ch:
		fmt.Println("chan")
	}
	switch 5 {
	case 5:
		fmt.Println("const tag")
	}
	switch os.Stdout {
	case os.Stdout, os.Stderr:
		fmt.Println("binvar")
	}
	var by byte = 'x'
	switch by {
	case 'x', 'y':
		fmt.Println("byte")
	case 255:
	}
	switch r := rune('é'); r {
	case 'é':
		fmt.Println("rune")
	}
}
