package main

import "fmt"

var g0 = ginit()

func ginit() int {
	fmt.Println("GVAR")
	return 1
}

func init() {
	fmt.Println("INIT")
}

func main() {
	fmt.Println("MARK")
	
}

type point struct{ X int }
func (p *point) Move(dx int) { p.X += dx }
type mover interface {
	Move(dx int)
}
type E2 struct{ point }
type E5 struct{ E2 }
type G[T any] struct{ v T }
func (g *G[T]) Set(v T) { g.v = v }
type setter interface{ Set(int) }

func body() {
	c := make(chan mover, 1)
	_ = c
	var e interface{} = point{}
	_ = e
	var mv mover
	p := point{}
	mv, _ = p, 1
}
