package main

import "fmt"

var g0 = ginit()

func ginit() int {
	fmt.Println("GVAR")
	return 1
}

func init() {
	fmt.Println("INIT")
}

func main() {
	fmt.Println("MARK")
	body()
}

type F float32

func body() {
	var f float64 = 1
	var g F = -1
	var c complex64 = 1i
	const z = 0
	const fz float64 = 0
	fmt.Println(f/0, g/0, c/0, f/z, f/fz, f/0.0, g/F(0), 0/f)
	f /= 0
	g /= 0.0
	fmt.Println(f, g)
}
