package main

import "fmt"

var g0 = ginit()

func ginit() int {
	fmt.Println("GVAR")
	return 1
}

func init() {
	fmt.Println("INIT")
}

func main() {
	fmt.Println("MARK")
	body()
}

type C chan int

func body() {
	a := make(chan int)
	var b <-chan int = a
	var s chan<- int = a
	var c C = a
	fmt.Println(a == b, b == a, a != s, s == a, c == a, a == c, c == b, b != c, a == nil, nil == b)
	var b2 <-chan int
	fmt.Println(b == b2, b2 == nil)
}
