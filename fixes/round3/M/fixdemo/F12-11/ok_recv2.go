package main

import (
	"errors"
	"fmt"
	"time"
)

type I interface{ M() int }
type T int

func (t T) M() int { return int(t) }

type S struct {
	e interface{}
	i I
	n int
}

func get(c chan int) interface{} { return <-c }
func geti(c chan T) I            { return <-c }

func main() {
	c := make(chan int, 32)
	for i := 0; i < 32; i++ {
		c <- i
	}
	ct := make(chan T, 4)
	ct <- 10
	ct <- 11
	ct <- 12
	ct <- 13
	ce := make(chan error, 2)
	ce <- errors.New("err")
	ce <- nil
	cd := make(chan time.Duration, 1)
	cd <- time.Second

	var e interface{} = <-c
	fmt.Println(e)
	e = "s"
	fmt.Println(e)
	var e1 interface{} = <-ce
	fmt.Println(e1)
	e1 = 3
	fmt.Println(e1)
	var st fmt.Stringer = <-cd
	fmt.Println(st)
	var er error = <-ce
	fmt.Println(er)

	s := S{}
	s.e = <-c
	s.i = <-ct
	s.n = 2
	fmt.Println(s.e, s.i.M(), s.n)
	m := map[string]interface{}{}
	m["a"] = <-c
	mi := map[string]I{}
	mi["a"] = <-ct
	fmt.Println(m, mi["a"].M())
	arr := []interface{}{nil}
	arr[0] = <-c
	fmt.Println(arr)

	v, ok := <-c
	var w interface{}
	w, ok = <-c
	fmt.Println(v, w, ok)
	a, b := <-c, <-c
	var x, y interface{} = <-c, <-c
	fmt.Println(a, b, x, y)
	x = "later"
	fmt.Println(x)
	select {
	case z := <-c:
		fmt.Println(z)
	}
	var z2 interface{}
	select {
	case z2 = <-c:
		fmt.Println(z2)
	}
	z2 = "sel"
	fmt.Println(z2, get(c), geti(ct).M())
	n := <-c
	var n2 int = <-c
	var n3 int
	n3 = <-c
	fmt.Println(n, n2, n3, <-c+1)
	var i I = <-ct
	fmt.Println(i.M())
	i = T(99)
	fmt.Println(i.M())
	func() {
		var e interface{} = <-c
		defer func() { fmt.Println(e) }()
		e = "closure"
	}()
}
