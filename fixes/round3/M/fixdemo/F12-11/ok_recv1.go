package main

import "fmt"

var g0 = ginit()

func ginit() int {
	fmt.Println("GVAR")
	return 1
}

func init() {
	fmt.Println("INIT")
}

func main() {
	fmt.Println("MARK")
	body()
}

type I interface{ M() int }
type T int
func (t T) M() int { return int(t) }

func body() {
	c := make(chan int, 4)
	c <- 1
	c <- 2
	c <- 3
	c <- 4
	var e interface{} = <-c
	fmt.Println(e)
	e = "s"
	fmt.Println(e)
	var e2 interface{}
	e2 = <-c
	fmt.Println(e2)
	var e3 any = <-c
	e3 = 1.5
	fmt.Println(e3)
	ct := make(chan T, 2)
	ct <- 5
	ct <- 6
	var i I = <-ct
	fmt.Println(i.M())
	var i2 I
	i2 = <-ct
	fmt.Println(i2.M())
	var x int = <-c
	fmt.Println(x)
}
