package main

import "fmt"

var g0 = ginit()

func ginit() int {
	fmt.Println("GVAR")
	return 1
}

func init() {
	fmt.Println("INIT")
}

func main() {
	fmt.Println("MARK")
	
}

type C chan int
type D chan int

func body() {
	var a C
	var s D
	_ = a == s
}
