package main

import (
	"fmt"
	"math"
	"time"
)

type T struct{ a [4]int }

func r8() int8          { return 127 }
func rn8() int8         { return -128 }
func ru() uint          { return 0 }
func rf() float32       { return 1e10 }
func ri() int           { return 2.0 }
func rr() rune          { return 'a' }
func rb() byte          { return 255 }
func rany() interface{} { return 1 << 40 }
func rd() time.Duration { return 5 }
func rm() (int8, uint8, float64, string, error) { return -1, 200, 1, "s", nil }
func rk() uint16 {
	const k = 65535
	return k
}
func rx(x int) int64 { return 1<<62 + 1 }
func rsh(n uint) int  { return 1 << n }

func main() {
	fmt.Println(r8(), rn8(), ru(), rf(), ri(), rr(), rb(), rany(), rd(), rk(), rx(0), rsh(3))
	fmt.Println(rm())
	var u uint = 3
	var i8 int8 = -128
	var b byte = 255
	var f float64 = 1.5
	i := 1
	fmt.Println(u == 3, u != 0, i8 == -128, i8 < 127, b == 255, b <= 0xff, f == 1.5, f > 1, i == 1.0, 2.0 == i, i < 1e3)
	var d time.Duration = time.Second
	fmt.Println(d == 0, d > 1e6, d != 1000000000, math.MaxInt64 > i, u < math.MaxUint32)
	var e interface{} = 1
	var r rune = 'x'
	fmt.Println(e == 1, e != 1.5, e == "s", r == 'x', r < 128, "a" < "b", 'a' == 97)
	s := []int{1, 2, 3}
	a := [3]int{4, 5, 6}
	t := T{}
	m := map[int]string{-1: "neg"}
	str := "hello"
	const k = 2
	const ku uint8 = 1
	fmt.Println(s[0], s[k], a[2], a[ku], t.a[3], m[-1], str[1], str[k:], s[0:0], s[:k], a[1:3:3], s[len(s)-1])
	p := &a
	fmt.Println(p[0], p[1:], make([]int, 0), make([]int, 0, 0), len(make(chan int, 0)))
	x := 7
	x /= 2
	x %= 2
	x = 9 / 3
	y := 9 % 4
	z := x / 1
	const one int = 1
	fmt.Println(x, y, z, x/one, x%int(2), 6/int64(3), x/(3-2), x/k)
	var ff float64 = 1
	var c complex128 = 1
	g := ff / 0
	var f32 float32 = 2
	ff /= 0
	fmt.Println(g, ff, f32/0, -f32/0.0, c/0, ff/float64(0), 0/ff, 0.0/f32, 0/x+1)
	idx := -1
	func() {
		defer func() { fmt.Println("recovered:", recover() != nil) }()
		_ = s[idx]
	}()
	zero := 0
	func() {
		defer func() { fmt.Println("recovered:", recover() != nil) }()
		_ = x / zero
	}()
}
