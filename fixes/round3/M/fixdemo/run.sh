#!/bin/bash
# usage: run.sh <yaegi binary> files...
export GOFLAGS=-mod=mod GOPROXY=off GOSUMDB=off GOTOOLCHAIN=local
y=$1; shift
for f in "$@"; do
  go_out=$(timeout 60 go run $f 2>/tmp/fixwt3-M/fixdemo/.goerr); go_rc=$?
  y_out=$(timeout 60 $y run $f 2>/tmp/fixwt3-M/fixdemo/.yerr); y_rc=$?
  [ $go_rc -ne 0 ] && go_rc=1; [ $y_rc -ne 0 ] && y_rc=1
  grep -q "panic" /tmp/fixwt3-M/fixdemo/.yerr && [ $go_rc = 1 ] && y_rc=PANIC
  if [ "$go_rc" = "$y_rc" ] && [ "$go_out" = "$y_out" ]; then res=SAME; else res=DIFF; fi
  echo "$res $(basename $(dirname $f))/$(basename $f) go=$go_rc yaegi=$y_rc"
  if [ "$VERBOSE" = 1 ] || [ $res = DIFF ]; then
    echo "   go:    $(grep -v '^#' /tmp/fixwt3-M/fixdemo/.goerr | head -2 | tr '\n' '|') out=$(echo $go_out | tr '\n' ' ')"
    echo "   yaegi: $(head -3 /tmp/fixwt3-M/fixdemo/.yerr | tr '\n' '|') out=$(echo $y_out | tr '\n' ' ')"
  fi
done
