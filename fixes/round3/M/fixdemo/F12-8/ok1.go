package main

import (
	"context"
	"errors"
	"fmt"
	"io"
	"os"
	"time"
)

type I interface{ M() int }
type T int

func (t T) M() int { return int(t) }

type E struct{}

func (E) Error() string { return "E" }

type S struct {
	a any
	e error
	i I
	r io.Reader
	b bool
	f float64
}

func ret0() error         { return nil }
func ret1() interface{}   { return 1 }
func ret2() (any, error)  { return "s", nil }
func ret3() I             { return nil }
func ret4() (bool, I)     { return true, T(2) }
func va(xs ...interface{}) int { return len(xs) }
func gen[X any](x X) X    { return x }
func num[N int | float64](a, b N) N { return a + b }

type key string

func main() {
	var e error = nil
	var r io.Reader = nil
	var a any = 1
	var a2 interface{} = true
	var a3 any = nil
	var i I = nil
	var st fmt.Stringer = time.Second
	fmt.Println(e, r, a, a2, a3, i, st)
	a = "x"
	a = 2.5
	a = false
	a = 'c'
	a = 1 << 10
	a = nil
	i = T(1)
	var ev E
	e = ev
	fmt.Println(a, i.M(), e, e != nil, i == nil, a == nil, nil == r)
	s := S{a: 1, e: nil, i: nil, r: os.Stdin, b: true, f: 1}
	s2 := S{true, ev, T(4), nil, 1 < 2, 3}
	s.a = nil
	s.b = !s.b || false
	fmt.Println(s.a, s2.a, s2.i.M(), s.b)
	m := map[string]interface{}{"a": 1, "b": true, "c": nil, "d": "s", "e": 1.5}
	m["f"] = false
	m["g"] = nil
	fmt.Println(len(m), m["a"], m["b"], m["c"])
	l := []any{1, "a", nil, true, 2.0}
	l = append(l, nil, false, 3)
	fmt.Println(l, va(1, nil, true), va())
	fmt.Println(ret0(), ret1(), ret3() == nil)
	fmt.Println(ret2())
	fmt.Println(ret4())
	fmt.Println(gen(1), gen(true), gen("s"), num(1, 2), num(1.5, 2))
	ctx := context.WithValue(context.Background(), key("k"), 1)
	fmt.Println(ctx.Value(key("k")), errors.Is(nil, nil), errors.Is(e, nil))
	var d time.Duration = 5
	d = d * 2
	var p *int = nil
	var f func() = nil
	var mm map[int]int = nil
	var sl []int = nil
	var ch chan int = nil
	fmt.Println(d, p == nil, f == nil, mm == nil, sl == nil, ch == nil, nil != p)
	var t bool = true
	t = t == true
	const c = true
	const k = 3
	var bb bool = c
	var x int8 = k
	var fl float32 = k
	var cx complex128 = k
	fmt.Println(t, bb, x, fl, cx, !c, c && t)
	if a == 1 || a == "s" || a == true {
		fmt.Println("no")
	}
	a = 1
	if a == 1 {
		fmt.Println("yes")
	}
	switch v := a.(type) {
	case nil:
	case int:
		fmt.Println("one", v)
	}
	ce := make(chan error, 1)
	ce <- nil
	fmt.Println(<-ce)
	func() {
		defer func() { fmt.Println(recover()) }()
		panic(1)
	}()
	var arr [2]interface{}
	arr[0] = 1
	arr[1] = nil
	fmt.Println(arr)
	fmt.Fprintln(os.Stdout, 1, true, nil, "s")
	var ip interface{ M() int } = T(7)
	fmt.Println(ip.M())
}
