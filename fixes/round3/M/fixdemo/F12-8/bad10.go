package main

import "fmt"

var g0 = ginit()

func ginit() int {
	fmt.Println("GVAR")
	return 1
}

func init() {
	fmt.Println("INIT")
}

func main() {
	fmt.Println("MARK")
	
}

type I interface{ M() }
func f(i I) {}

func body() {
	f("s")
}
