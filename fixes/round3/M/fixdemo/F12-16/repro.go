package main

import "fmt"

var g0 = ginit()

func ginit() int {
	fmt.Println("GVAR")
	return 1
}

func init() {
	fmt.Println("INIT")
}

func main() {
	fmt.Println("MARK")
}

type point struct {
	X, Y int
	Name string
}

func (p point) Norm() int       { return p.X*p.X + p.Y*p.Y }
func (p *point) Move(dx int)    { p.X += dx }
func (p point) Label() string   { return p.Name }

type shape interface {
	Norm() int
	Label() string
}

type mover interface {
	Move(dx int)
}

type celsius float64

func (c celsius) String() string { return "c" }

func sum(base int, xs ...int) int {
	for _, x := range xs {
		base += x
	}
	return base
}

type shaper interface {
	area() int
	Name() string
}

type sq struct{ s int }

func (q sq) area() int    { return q.s * q.s }
func (q sq) Name() string { return "sq" }

type pt struct{ x, y int }

type onlyName struct{}

func (onlyName) Name() string { return "" }

type onlyArea struct{}

func (onlyArea) area() int { return 0 }

type wrongSig struct{}

func (wrongSig) area() string { return "" }
func (wrongSig) Name() string { return "" }

type ptrRecv struct{}

func (*ptrRecv) area() int    { return 0 }
func (*ptrRecv) Name() string { return "" }

func pair() (int, string) { return 1, "a" }

func apply(f func(int) int, v int) int { return f(v) }

func body() {
	n0 := 7
	_ = n0
	p := point{X: 1, Y: 2, Name: "p"}
	q := point{3, 4, "q"}
	pp := &p
	pp.Move(1)
	var s shape = q
	_ = s.Norm()
	var mv mover = pp
	mv.Move(2)
	xs := []int{1, 2, 3}
	ys := [3]string{"a", "b", "c"}
	m := map[string]int{"a": 1, "b": 2}
	ms := map[string]point{"o": {X: 0, Y: 0, Name: "o"}}
	_ = ms
	xs = append(xs, 4, 5)
	n := len(xs) + cap(xs) + len(ys) + len(m) + len("lit")
	zs := make([]int, 2, 4)
	n += copy(zs, xs)
	delete(m, "a")
	ch := make(chan int, 1)
	ch <- n
	close(ch)
	np := new(point)
	np.X = p.X
	_ = q.Label()
	a, b := pair()
	_, _ = a, b
	var e interface{} = p
	if pt, ok := e.(point); ok {
		_ = pt.X
	}
	if sh, ok := e.(shape); ok {
		_ = sh
	}
	ip := &n
	*ip = 3
	total := sum(1, xs...)
	total += sum(2, 3, 4)
	_ = apply(func(v int) int { return v + 1 }, total)
	for i, x := range xs {
		_, _ = i, x
	}
	for k, v := range m {
		_, _ = k, v
	}
	switch total {
	case 1:
		n = 1
	case 2, 3:
		n = 2
	default:
		n = 3
	}
	var t celsius = 36.6
	_ = t.String()
	sub := xs[1:2]
	_ = sub
	c, d := 1, "x"
	c, d = 2, "y"
	_, _ = c, d
	var arr [2]point
	arr[1].X = 5
	const k8 int8 = 100
	_ = k8
	var sh2 shaper = sq{2}
	if a1, ok := sh2.(sq); ok {
		_ = a1
	}
	a2 := sh2.(*ptrRecv)
	_ = a2
	switch a3 := sh2.(type) {
	case pt:
		_ = a3
	}
	okc := n > 0
	if okc { n = 10 }
	if okc { n = 11 } else { n = 12 }
	if c1 := n; okc { n = c1 }
	if c2 := n; okc { n = c2 } else { n = 13 }
	for okc { n = 14; break }
	for c3 := 0; okc; { n = c3; break }
	for ; okc; n++ { n = 15; break }
	for c4 := 0; okc; c4++ { n = 16; break }
outer:
	for i := 0; i < 2; i++ {
		for {
			continue outer
		}
	}
	defer fmt.Sprint(total)
	go sum(1)
	func() {
		_ = recover()
	}()
}

