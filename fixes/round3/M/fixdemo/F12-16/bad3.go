package main

import "fmt"

var g0 = ginit()

func ginit() int {
	fmt.Println("GVAR")
	return 1
}

func init() {
	fmt.Println("INIT")
}

func main() {
	fmt.Println("MARK")
	
}

type shaper interface {
	area() int
	Name() string
}
type sq struct{ s int }
func (q sq) area() int    { return q.s * q.s }
func (q sq) Name() string { return "sq" }
type pt struct{ x, y int }
type onlyName struct{}
func (onlyName) Name() string { return "" }
type wrongSig struct{}
func (wrongSig) area() string { return "" }
func (wrongSig) Name() string { return "" }
type ptrRecv struct{}
func (*ptrRecv) area() int    { return 0 }
func (*ptrRecv) Name() string { return "" }
type namer interface{ Name() string }
type other interface{ Other() }

func body() {
	var s shaper = sq{1}
	switch v := s.(type) {
	case nil:
	case wrongSig:
		_ = v
	}
}
