package main

import (
	"errors"
	"fmt"
	"io"
	"os"
	"strings"
	"time"
)

type shaper interface {
	area() int
	Name() string
}
type sq struct{ s int }

func (q sq) area() int    { return q.s * q.s }
func (q sq) Name() string { return "sq" }

type ptrRecv struct{}

func (*ptrRecv) area() int    { return 0 }
func (*ptrRecv) Name() string { return "p" }

type namer interface{ Name() string }
type emb struct{ sq }
type myErr struct{}

func (myErr) Error() string { return "my" }

type num int

func (n num) String() string { return "num" }

func classify(e interface{}) string {
	switch v := e.(type) {
	case nil:
		return "nil"
	case int, int8:
		return fmt.Sprint("int", v)
	case string:
		return "string" + v
	case []int:
		return fmt.Sprint("slice", len(v))
	case map[string]int:
		return "map"
	case func() int:
		return fmt.Sprint("func", v())
	case chan int:
		return "chan"
	case *sq:
		return "psq"
	case sq:
		return "sq" + v.Name()
	case shaper:
		return "shaper"
	case error:
		return "error " + v.Error()
	case fmt.Stringer:
		return "stringer " + v.String()
	case time.Duration:
		return "dur"
	case struct{ a int }:
		return "anon"
	case [2]int:
		return "arr"
	case *int:
		return "pint"
	case interface{ Foo() }:
		return "foo"
	default:
		return "other"
	}
}

func shape(s shaper) string {
	switch v := s.(type) {
	case sq:
		return "sq"
	case *ptrRecv:
		return v.Name()
	case emb:
		return "emb"
	case *emb:
		return "pemb"
	case namer:
		return "namer"
	case nil:
		return "nil"
	}
	return "?"
}

func rd(r io.Reader) string {
	switch r.(type) {
	case *os.File:
		return "file"
	case *strings.Reader:
		return "sr"
	case io.ReadCloser:
		return "rc"
	case fmt.Stringer:
		return "stringer"
	}
	return "?"
}

func er(e error) string {
	switch x := e.(type) {
	case myErr:
		return "my"
	case *os.PathError:
		return "path" + x.Op
	case interface{ Unwrap() error }:
		return "wrap"
	case nil:
		return "nil"
	}
	return "?"
}

func st(s fmt.Stringer) string {
	switch s.(type) {
	case num:
		return "num"
	case time.Duration:
		return "dur"
	case *strings.Builder:
		return "sb"
	}
	return "?"
}

func gen[T any](x T) string {
	switch any(x).(type) {
	case int:
		return "int"
	case string:
		return "string"
	}
	return "?"
}

func main() {
	x := 1
	fmt.Println(classify(nil), classify(1), classify(int8(2)), classify("s"), classify([]int{1}), classify(map[string]int{}),
		classify(func() int { return 3 }), classify(make(chan int)), classify(&sq{}), classify(sq{}), classify(&ptrRecv{}),
		classify(errors.New("e")), classify(num(1)), classify(time.Second), classify(struct{ a int }{1}), classify([2]int{}), classify(&x), classify(1.5))
	fmt.Println(shape(sq{1}), shape(&ptrRecv{}), shape(emb{}), shape(&emb{}), shape(nil), shape(&sq{}))
	fmt.Println(rd(os.Stdin), rd(strings.NewReader("")), rd(io.NopCloser(strings.NewReader(""))))
	fmt.Println(er(myErr{}), er(&os.PathError{Op: "op", Err: errors.New("x")}), er(fmt.Errorf("w: %w", errors.New("x"))), er(nil), er(errors.New("z")))
	fmt.Println(st(num(1)), st(time.Second), st(&strings.Builder{}))
	fmt.Println(gen(1), gen("s"), gen(1.5))
	var sh shaper = sq{2}
	if v, ok := sh.(sq); ok {
		fmt.Println(v.area())
	}
	var e interface{} = sh
	switch e.(type) {
	case shaper, namer:
		fmt.Println("iface")
	}
	switch e.(type) {
	}
	switch e.(type) {
	default:
		fmt.Println("default only")
	}
}
