package main

import (
	"errors"
	"fmt"
	"io"
	"os"
	"strings"
	"time"
)

type Shaper interface {
	Area() int
	Name() string
}
type Sq struct{ s int }

func (q Sq) Area() int    { return q.s * q.s }
func (q Sq) Name() string { return "sq" }

type PtrRecv struct{}

func (*PtrRecv) Area() int    { return 0 }
func (*PtrRecv) Name() string { return "p" }

type Emb struct{ Sq }

func classify(e interface{}) string {
	switch v := e.(type) {
	case nil:
		return "nil"
	case int, int8:
		return fmt.Sprint("int", v)
	case string:
		return "string" + v
	case []int:
		return fmt.Sprint("slice", len(v))
	case map[string]int:
		return "map"
	case func() int:
		return fmt.Sprint("func", v())
	case chan int:
		return "chan"
	case *Sq:
		return "psq"
	case time.Duration:
		return "dur"
	case struct{ a int }:
		return "anon"
	case [2]int:
		return "arr"
	case *int:
		return "pint"
	default:
		return "other"
	}
}

func shape(s Shaper) string {
	switch v := s.(type) {
	case Sq:
		return "sq"
	case *PtrRecv:
		return v.Name()
	case Emb:
		return "emb"
	case *Emb:
		return "pemb"
	}
	return "?"
}

func rd(r io.Reader) string {
	switch r.(type) {
	case *os.File:
		return "file"
	case *strings.Reader:
		return "sr"
	}
	return "?"
}

func er(e error) string {
	switch x := e.(type) {
	case *os.PathError:
		return "path" + x.Op
	case nil:
		return "nil"
	}
	return "?"
}

func st(s fmt.Stringer) string {
	switch s.(type) {
	case time.Duration:
		return "dur"
	case *strings.Builder:
		return "sb"
	}
	return "?"
}

func gen[T any](x T) string {
	switch any(x).(type) {
	case int:
		return "int"
	case string:
		return "string"
	}
	return "?"
}

func main() {
	x := 1
	fmt.Println(classify(nil), classify(1), classify(int8(2)), classify("s"), classify([]int{1}), classify(map[string]int{}),
		classify(func() int { return 3 }), classify(make(chan int)), classify(&Sq{}),
		classify(time.Second), classify(struct{ a int }{1}), classify([2]int{}), classify(&x), classify(1.5))
	fmt.Println(shape(Sq{1}), shape(&PtrRecv{}), shape(Emb{}), shape(&Emb{}))
	fmt.Println(rd(os.Stdin), rd(strings.NewReader("")))
	fmt.Println(er(&os.PathError{Op: "op", Err: errors.New("x")}), er(nil), er(errors.New("z")))
	fmt.Println(st(time.Second), st(&strings.Builder{}))
	fmt.Println(gen(1), gen("s"), gen(1.5))
	var sh Shaper = Sq{2}
	if v, ok := sh.(Sq); ok {
		fmt.Println(v.Area())
	}
	var e interface{} = sh
	switch e.(type) {
	}
	switch e.(type) {
	default:
		fmt.Println("default only")
	}
}
