package main

import (
	"bytes"
	"fmt"
	"io"
	"sort"
	"strings"
)

type Mover interface{ Move(dx int) }
type Namer interface{ Name() string }
type Both interface {
	Mover
	Namer
}
type Var interface {
	Do(f func(int) string, xs ...int) (int, error)
}

type Point struct{ X int }

func (p *Point) Move(dx int) { p.X += dx }
func (p Point) Name() string { return "p" }

type W struct{ Mover }
type PW struct{ *Point }
type VW struct{ Point }
type Deep struct{ PW }
type HF func() string

func (h HF) Name() string { return h() }

type SL []int

func (s SL) Name() string { return "sl" }

type Box[T any] struct{ v T }

func (b Box[T]) Name() string { return fmt.Sprint(b.v) }

type V struct{}

func (V) Do(f func(int) string, xs ...int) (int, error) { return len(xs), nil }

type RW struct {
	io.Reader
	io.Writer
}

func mv(m Mover) string {
	switch m.(type) {
	case *Point:
		return "*Point"
	case W:
		return "W"
	case *W:
		return "*W"
	case PW:
		return "PW"
	case *VW:
		return "*VW"
	case Deep:
		return "Deep"
	case Both:
		return "Both"
	}
	return "?"
}

func nm(n Namer) string {
	switch v := n.(type) {
	case Point:
		return "Point"
	case *Point:
		return "*Point"
	case VW:
		return "VW"
	case HF:
		return "HF" + v()
	case SL:
		return "SL"
	case Box[int]:
		return "Box[int]"
	case *Box[string]:
		return "*Box[string]"
	}
	return "?"
}

func vr(v Var) string {
	switch v.(type) {
	case V:
		return "V"
	case *V:
		return "*V"
	}
	return "?"
}

func rw(r io.Reader) string {
	switch r.(type) {
	case RW:
		return "RW"
	case *RW:
		return "*RW"
	case *bytes.Buffer:
		return "buf"
	case io.ReadWriter:
		return "rw"
	}
	return "?"
}

func si(s sort.Interface) string {
	switch s.(type) {
	case sort.IntSlice:
		return "ints"
	case sort.StringSlice:
		return "strings"
	}
	return "?"
}

func main() {
	p := &Point{}
	fmt.Println(mv(p), mv(PW{p}), mv(&VW{}), mv(Deep{PW{p}}))
	fmt.Println(nm(Point{}), nm(p), nm(VW{}), nm(HF(func() string { return "!" })), nm(SL{}), nm(Box[int]{1}), nm(&Box[string]{"s"}))
	fmt.Println(vr(V{}), vr(&V{}))
	fmt.Println(rw(&bytes.Buffer{}), rw(strings.NewReader("")))
	fmt.Println(si(sort.IntSlice{}), si(sort.StringSlice{}))
}
