package main

import "fmt"

var g0 = ginit()

func ginit() int {
	fmt.Println("GVAR")
	return 1
}

func init() {
	fmt.Println("INIT")
}

func main() {
	fmt.Println("MARK")
	
}

type B bool

func body() {
	var b B
	var c bool
	_ = b && c
}
