package main

import "fmt"

var g0 = ginit()

func ginit() int {
	fmt.Println("GVAR")
	return 1
}

func init() {
	fmt.Println("INIT")
}

func main() {
	fmt.Println("MARK")
	body()
}

type B bool
func g(b bool) bool { return b }
type T struct{ ok bool }

func body() {
	var b B = true
	var c bool
	x, y := 1, 2
	fmt.Println(b && true, true && b, b && (x < y), (x == y) || b, c || x < y && !c)
	const k = true && false
	fmt.Println(k, k || c, g(c || true), !b && b)
	t := T{true}
	m := map[string]bool{"a": true}
	var p *T = &t
	fmt.Println(t.ok && m["a"], p != nil && p.ok, m["z"] || g(false))
	var e interface{} = true
	fmt.Println(e.(bool) && true)
	if v, ok := m["a"]; ok && v { fmt.Println("in") }
	for i := 0; i < 3 && x < y; i++ { x++ }
	var bb B = b && b
	bb = bb || x > 0
	fmt.Println(x, bb)
	ch := make(chan bool, 1)
	ch <- true
	fmt.Println(<-ch && c)
	f := func() bool { return true }
	fmt.Println(f() && f() || false)
}
