package main

import "fmt"

var g0 = ginit()

func ginit() int {
	fmt.Println("GVAR")
	return 1
}

func init() {
	fmt.Println("INIT")
}

func main() {
	fmt.Println("MARK")
	body()
}

type S struct{ m map[string]bool }
func two() (bool, error) { return true, nil }
type I interface{ Ok() bool }
type V struct{}
func (V) Ok() bool { return true }
func gen[T comparable](a, b T) bool { return a == b || a != b && true }

func body() {
	var i I = V{}
	s := S{m: map[string]bool{"k": true}}
	r, err := two()
	fmt.Println(r && err == nil, i.Ok() && s.m["k"], i != nil && i.Ok())
	var e error
	fmt.Println(e == nil || e.Error() == "x")
	bs := []bool{true, false}
	fmt.Println(bs[0] && !bs[1], gen(1, 2), gen("a", "a"))
	pb := &bs[0]
	fmt.Println(*pb || false)
	type NB bool
	nb := NB(true)
	fmt.Println(nb && NB(false), nb || !nb)
	fn := func(b bool) bool { return b && i.Ok() }
	fmt.Println(fn(true), fmt.Sprint(1) == "1" && len(bs) > 1)
	switch { case r && true: fmt.Println("sw") }
	var ee interface{} = 1
	_, isInt := ee.(int)
	fmt.Println(isInt && r)
}
