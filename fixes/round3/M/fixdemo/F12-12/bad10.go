package main

import "fmt"

var g0 = ginit()

func ginit() int {
	fmt.Println("GVAR")
	return 1
}

func init() {
	fmt.Println("INIT")
}

func main() {
	fmt.Println("MARK")
	
}

func f0() (int, int) { return 1, 2 }
func none() {}
func pair() (int, string) { return 1, "a" }
func one() int { return 1 }

func body() {
	m := map[string]int{}
	m["a"] = f0()
}
