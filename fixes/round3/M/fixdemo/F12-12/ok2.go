package main

import (
	"fmt"
	"net/http"
	"sort"
	"strings"
)

type HF func() string
type HF2 HF
type Op func(a, b int) (int, error)
type Op2 = Op
type Handler interface{ Serve(s string) string }
type HandlerFunc func(s string) string

func (f HandlerFunc) Serve(s string) string { return f(s) }

type S struct {
	h   HF
	op  Op
	m   map[string]func() int
	fs  []func(int) (int, bool)
	hf  http.HandlerFunc
	cmp func(a, b string) bool
}

func apply(op Op, a, b int) int {
	r, _ := op(a, b)
	return r
}

func ret() HF { return func() string { return "ret" } }

func main() {
	var h HF = func() string { return "h" }
	var h2 HF2 = HF2(h)
	var op Op = func(a, b int) (int, error) { return a + b, nil }
	var op2 Op2 = op
	_ = h2
	s := h() + h() + ret()()
	r, err := op(1, 2)
	r2, _ := op2(3, 4)
	fmt.Println(s, r, err, r2, apply(op, 5, 6))
	st := S{h: h, op: op, m: map[string]func() int{"a": func() int { return 1 }},
		fs: []func(int) (int, bool){func(i int) (int, bool) { return i, true }},
		cmp: func(a, b string) bool { return a < b }}
	x := st.h() + fmt.Sprint(st.m["a"]())
	y, ok := st.fs[0](3)
	z, e2 := st.op(1, 1)
	fmt.Println(x, y, ok, z, e2, st.cmp("a", "b"))
	var hd Handler = HandlerFunc(strings.ToUpper)
	fmt.Println(hd.Serve("up"), HandlerFunc(strings.ToLower)("LOW"))
	less := sort.StringsAreSorted
	f2 := strings.Cut
	a, b, found := f2("k=v", "=")
	fmt.Println(less([]string{"a"}), a, b, found)
	var pf *func() int
	g := func() int { return 9 }
	pf = &g
	fmt.Println((*pf)(), func(fs ...func() int) int { return fs[0]() }(g))
	type local func() (int, int)
	var l local = func() (int, int) { return 1, 2 }
	l1, l2 := l()
	fmt.Println(l1, l2)
}
