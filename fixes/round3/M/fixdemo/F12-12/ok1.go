package main

import (
	"fmt"
	"os"
	"strconv"
	"strings"
	"sync"
)

type T struct{ f func() (int, error) }

func (t T) two() (int, string) { return 1, "m" }
func (t *T) none()             {}
func (t T) one() int           { return 7 }

func none()                  {}
func one() int               { return 1 }
func pair() (int, string)    { return 1, "a" }
func three() (int, int, int) { return 1, 2, 3 }
func sum(xs ...int) int {
	t := 0
	for _, x := range xs {
		t += x
	}
	return t
}
func take2(a int, s string) string   { return fmt.Sprint(a, s) }
func fwd() (int, string)             { return pair() }
func fwd3() (a, b, c int)            { return three() }
func mk() func() (int, int)          { return func() (int, int) { return 4, 5 } }
func gen[X any](x X) (X, bool)       { return x, true }
func gen1[X any](x X) X              { return x }
func errf() error                    { return nil }

var ga, gb = pair()
var gc = one()
var gd, ge int = mk()()

func main() {
	none()
	one()
	pair()
	(none())
	go none()
	defer none()
	defer pair()
	var wg sync.WaitGroup
	wg.Add(1)
	go func() { defer wg.Done(); pair() }()
	wg.Wait()
	a, b := pair()
	var c, d = pair()
	var e, f int = mk()()
	a, b = pair()
	_, b = pair()
	x, y, z := three()
	fmt.Println(a, b, c, d, e, f, x, y, z, ga, gb, gc, gd, ge)
	fmt.Println(pair())
	fmt.Println(take2(pair()), sum(three()), sum(one(), one()), sum())
	fmt.Println(fwd())
	fmt.Println(fwd3())
	t := T{f: func() (int, error) { return 3, nil }}
	n, err := t.f()
	m, s := t.two()
	t.none()
	(&t).none()
	fmt.Println(n, err, m, s, t.one()+one(), -one(), one()*2 == 2)
	v, ok := gen(3)
	g := gen1("s")
	fmt.Println(v, ok, g)
	i, cerr := strconv.Atoi("12")
	fmt.Println(i, cerr, strings.ToUpper("a")+strings.Repeat("b", one()))
	fmt.Fprintln(os.Stdout, "x")
	os.Setenv("A", "1")
	if q, p := pair(); q == 1 {
		fmt.Println(p)
	}
	if none(); true {
		fmt.Println("init stmt")
	}
	switch none(); one() {
	case one():
		fmt.Println("sw")
	}
	for k := 0; k < 2; none() {
		k++
	}
	for k, w := pair(); k < 2; k, w = k+1, w+"!" {
		fmt.Println(w)
	}
	arr := []int{one(), sum(1, 2)}
	mp := map[string]int{"a": one()}
	st := struct{ a int }{one()}
	fmt.Println(arr, mp, st, arr[one()], len(strings.Split("a,b", ",")), cap(make([]int, one())))
	func() {
		defer func() { recover() }()
		panic(errf())
	}()
	var iface interface{} = one()
	ch := make(chan int, 1)
	ch <- one()
	fmt.Println(iface, <-ch, mk() != nil, errf() == nil)
	r1, r2 := func() (int, int) { return 8, 9 }()
	fmt.Println(r1, r2, func() int { return 1 }())
	copy(arr, []int{5})
	_ = append(arr, one())
	delete(mp, "a")
	close(ch)
	_, _ = mk()()
	l1, l2 := len(arr), one()
	fmt.Println(l1, l2)
}
