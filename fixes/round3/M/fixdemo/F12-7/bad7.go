package main

import "fmt"

var g0 = ginit()

func ginit() int {
	fmt.Println("GVAR")
	return 1
}

func init() {
	fmt.Println("INIT")
}

func main() {
	fmt.Println("MARK")
	
}

type S struct{ c chan []int }

func body() {
	s := S{make(chan []int, 1)}
	s.c <- []string{"a"}
}
