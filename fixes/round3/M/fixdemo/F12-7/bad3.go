package main

import "fmt"

var g0 = ginit()

func ginit() int {
	fmt.Println("GVAR")
	return 1
}

func init() {
	fmt.Println("INIT")
}

func main() {
	fmt.Println("MARK")
	
}

type C chan int8

func body() {
	c := make(C, 1)
	c <- 300
}
