package main

import "fmt"

type C chan int
type I interface{ M() }
type T int
func (T) M() {}

func main() {
	c := make(C, 2)
	c <- 1
	v := <-c
	fmt.Printf("%T %v\n", v, v)
	ci := make(chan I, 1)
	ci <- T(3)
	fmt.Println(<-ci)
	ce := make(chan interface{}, 3)
	ce <- 1
	ce <- "s"
	ce <- nil
	fmt.Println(<-ce, <-ce, <-ce)
	var so chan<- float64 = make(chan float64, 1)
	so <- 1
	cc := make(chan chan int, 1)
	cc <- c
	cp := make(chan *T, 1)
	cp <- nil
	cf := make(chan func(), 1)
	cf <- func() {}
	cs := make(chan []byte, 1)
	cs <- []byte("a")
	cr := make(chan rune, 1)
	cr <- 'a'
	const k = 3
	cu := make(chan uint8, 1)
	cu <- k
	cerr := make(chan error, 1)
	cerr <- fmt.Errorf("e")
	fmt.Println(<-cerr)
	select {
	case c <- 4:
		fmt.Println("sent")
	default:
	}
}
