package main

import (
	"fmt"
	"time"
)

var g0 = ginit()

func ginit() int {
	fmt.Println("GVAR")
	return 1
}

func init() {
	fmt.Println("INIT")
}

func main() {
	fmt.Println("MARK")
	body()
}

type S struct{ c chan []int; m map[string]chan<- string }
type I interface{ M() int }
type T int
func (t T) M() int { return int(t) }
type P struct{ v int }
func (p *P) M() int { return p.v }
func mk() chan I { return make(chan I, 4) }
type D time.Duration

func body() {
	s := S{make(chan []int, 1), map[string]chan<- string{}}
	cs := make(chan string, 1)
	s.m["a"] = cs
	s.m["a"] <- "hi"
	s.c <- nil
	fmt.Println(<-cs, <-s.c == nil)
	ci := mk()
	ci <- T(1)
	ci <- &P{2}
	var i I = T(3)
	ci <- i
	fmt.Println((<-ci).M(), (<-ci).M(), (<-ci).M())
	arr := [2]chan int{make(chan int, 1), make(chan int, 1)}
	arr[1] <- 1 << 3
	fmt.Println(<-arr[1])
	ct := make(chan time.Duration, 2)
	ct <- time.Second
	ct <- 5
	fmt.Println(<-ct, <-ct)
	cst := make(chan struct{}, 1)
	cst <- struct{}{}
	cb := make(chan bool, 2)
	cb <- 1 < 2
	cb <- true
	fmt.Println(<-cb, <-cb)
	cf := make(chan float32, 1)
	cf <- 2
	fmt.Println(<-cf)
	go func() { cb <- false }()
	fmt.Println(<-cb)
	cm := make(chan map[string]int, 1)
	cm <- map[string]int{"a": 1}
	fmt.Println(<-cm)
	cany := make(chan any, 2)
	cany <- 9
	cany <- []int{1}
	fmt.Println(<-cany, <-cany)
}
