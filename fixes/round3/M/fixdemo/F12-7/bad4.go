package main

import "fmt"

var g0 = ginit()

func ginit() int {
	fmt.Println("GVAR")
	return 1
}

func init() {
	fmt.Println("INIT")
}

func main() {
	fmt.Println("MARK")
	
}

type I interface{ M() }
type T struct{}

func body() {
	c := make(chan I, 1)
	c <- T{}
}
