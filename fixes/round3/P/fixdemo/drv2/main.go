// Command drv2 exercises the Compile/Execute and EvalPath entry points around func main.
package main

import (
	"fmt"
	"go/parser"
	"os"

	"github.com/traefik/yaegi/interp"
	"github.com/traefik/yaegi/stdlib"
)

func check(err error) {
	if err != nil {
		fmt.Println("ERR:", err)
	}
}

func main() {
	// 1. Compile + Execute: main runs at each Execute of the program declaring it, and only then.
	i := interp.New(interp.Options{})
	check(i.Use(stdlib.Symbols))
	p1, err := i.Compile(`package main; func main() { println("p1 main") }`)
	check(err)
	p2, err := i.Compile(`println("p2 stmt")`)
	check(err)
	fmt.Println("-- exec p2")
	_, err = i.Execute(p2)
	check(err)
	fmt.Println("-- exec p1")
	_, err = i.Execute(p1)
	check(err)
	fmt.Println("-- exec p1 again")
	_, err = i.Execute(p1)
	check(err)
	fmt.Println("-- exec p2 again")
	_, err = i.Execute(p2)
	check(err)

	// 2. CompileAST + Execute.
	f, err := parser.ParseFile(i.FileSet(), "x.go", `package main; func init() { println("ast init") }`, 0)
	check(err)
	p3, err := i.CompileAST(f)
	check(err)
	fmt.Println("-- exec p3 (CompileAST)")
	_, err = i.Execute(p3)
	check(err)
	f, err = parser.ParseFile(i.FileSet(), "y.go", `package main; func main() { println("ast main") }`, 0)
	check(err)
	p4, err := i.CompileAST(f)
	check(err)
	fmt.Println("-- exec p4 (CompileAST, declares main)")
	_, err = i.Execute(p4)
	check(err)
	fmt.Println("-- eval expression")
	v, err := i.Eval(`1 + 2`)
	check(err)
	fmt.Println(v)

	// 3. EvalPath on a directory (importSrc), then further evaluations.
	if len(os.Args) > 1 {
		j := interp.New(interp.Options{})
		check(j.Use(stdlib.Symbols))
		fmt.Println("-- EvalPath dir")
		_, err = j.EvalPath(os.Args[1])
		check(err)
		fmt.Println("-- Eval after EvalPath")
		_, err = j.Eval(`println("after", helper())`)
		check(err)
		// 4. EvalPath on a file, then further evaluations.
		k := interp.New(interp.Options{})
		check(k.Use(stdlib.Symbols))
		fmt.Println("-- EvalPath file")
		_, err = k.EvalPath(os.Args[1] + "/a.go")
		fmt.Println("err:", err != nil) // helper is undefined: a.go alone does not compile
	}
}
