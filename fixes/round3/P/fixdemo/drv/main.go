// Command drv evaluates the segments of a file (separated by lines "//---")
// one after the other on a single interpreter, like a sequence of Eval calls.
package main

import (
	"fmt"
	"os"
	"strings"

	"github.com/traefik/yaegi/interp"
	"github.com/traefik/yaegi/stdlib"
)

func main() {
	b, err := os.ReadFile(os.Args[1])
	if err != nil {
		panic(err)
	}
	i := interp.New(interp.Options{})
	if err := i.Use(stdlib.Symbols); err != nil {
		panic(err)
	}
	for k, seg := range strings.Split(string(b), "\n//---\n") {
		if _, err := i.Eval(seg); err != nil {
			fmt.Printf("ERR segment %d: %v\n", k, err)
		}
	}
}
