package main

func main() { println("dir main", helper()) }
