package main

func init() { println("dir init") }

func helper() int { return 42 }
