#!/bin/sh
# usage: run.sh <drv binary> <dir>...
# Each *.src file holds Eval segments separated by "//---" lines.
# If <name>.want exists the interpreter output is compared with it (programs that
# are not a valid single Go file: redefinitions, top-level statements); otherwise
# the concatenation (prefixed with "package main") is run with `go run`.
export GOFLAGS=-mod=mod GOPROXY=off GOSUMDB=off GOTOOLCHAIN=local
drv=$1; shift
rc=0
for d in "$@"; do
  for f in $d/*.src; do
    b=${f%.src}
    got=$($drv $f 2>&1)
    if [ -f $b.want ]; then
      want=$(cat $b.want); how=want
    else
      t=$(mktemp -d); { echo "package main"; grep -v "^package " $f; } > $t/main.go
      want=$(cd $t && go run main.go 2>&1); rm -rf $t; how=gorun
    fi
    if [ "$got" = "$want" ]; then echo "PASS $f ($how)"; else echo "FAIL $f ($how)"; echo "--- got"; echo "$got"; echo "--- want"; echo "$want"; rc=1; fi
  done
done
exit $rc
