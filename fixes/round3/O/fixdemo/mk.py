#!/usr/bin/env python3
"""Builds the patch files from the edit lists below: every patch against the head (when it is
independent), the dependent ones against their prerequisites, a series that applies in order,
and the combined patch."""
import os, subprocess, sys, tempfile, shutil

WT = "/tmp/fixwt3-O"
FILES = ["interp/src.go", "interp/gta.go"]

def head(f):
    return subprocess.run(["git", "show", "HEAD:" + f], cwd=WT, stdout=subprocess.PIPE, text=True, check=True).stdout

def rep(s, old, new, cnt=1):
    assert s.count(old) == cnt, (s.count(old), old)
    return s.replace(old, new)

STAT = "if _, err := fs.Stat(interp.opt.filesystem, dir); err == nil {"
ISDIR = "if isDir(interp.opt.filesystem, dir) {"

def f16_3(t):
    s = t["interp/src.go"]
    s = rep(s, '''		dir = filepath.Join(filepath.Dir(interp.name), rPath, importPath)
''', '''		dir = filepath.Join(filepath.Dir(interp.name), rPath, importPath)
	} else if i := strings.LastIndex("/"+importPath, "/vendor/"); i >= 0 {
		// As for the go tool, a vendored package is imported by its path below the vendor directory.
		return "", fmt.Errorf("must be imported as %s", importPath[i+len("vendor/"):])
''')
    t["interp/src.go"] = s

def f16_9(t):
    s = t["interp/src.go"]
    s = rep(s, STAT, ISDIR, 2)
    s = rep(s, '''			if !errors.Is(err, fs.ErrNotExist) {
				return "", err
''', '''			if err != nil && !errors.Is(err, fs.ErrNotExist) {
				return "", err
''')
    s = rep(s, '''// isPathRelative returns true''', '''// isDir returns true if path is a directory: a file is neither a package nor a vendor directory.
func isDir(filesystem fs.FS, path string) bool {
	fi, err := fs.Stat(filesystem, path)
	return err == nil && fi.IsDir()
}

// isPathRelative returns true''')
    t["interp/src.go"] = s

def f16_1(t):
    s = t["interp/src.go"]
    cond = ISDIR if ISDIR in s else STAT
    s = rep(s, '''	dir = filepath.Join(goPath, "src", effectivePkg(root, importPath))

	%s
		return dir, root, nil // found!
	}

	if root == "" {
''' % cond, '''	if root == "" {
		// No vendor directory holds the package: an import path is relative to GOPATH/src only.
		dir = filepath.Join(goPath, "src", importPath)

		%s
			return dir, root, nil // found!
		}

''' % cond)
    t["interp/src.go"] = s

def f16_7(t):
    s = t["interp/gta.go"]
    s = rep(s, '''			if packageName := path.Base(ipath); path.Dir(ipath) == packageName {
				ipath = packageName
''', '''			if packageName := path.Base(ipath); path.Dir(ipath) == packageName && interp.binPkg[packageName] != nil {
				// A binary package can be imported by the key of its exports.
				ipath = packageName
''')
    t["interp/gta.go"] = s

def f16_4_6(t):
    s = t["interp/src.go"]
    s = rep(s, '''	} else if dir, rPath, err = interp.pkgDir(interp.context.GOPATH, rPath, importPath); err != nil {
''', '''	} else if dir, rPath, err = interp.pkgDir(interp.context.GOPATH, interp.mainRoot(rPath), importPath); err != nil {
''')
    s = rep(s, '''// It is meant to be called in the case when the initial input is a main package.
func (interp *Interpreter) rootFromSourceLocation() (string, error) {
	sourceFile := interp.name
	if sourceFile == DefaultSourceName {
		return "", nil
	}
	wd, err := os.Getwd()
	if err != nil {
		return "", err
	}
	pkgDir := filepath.Join(wd, filepath.Dir(sourceFile))
	root := strings.TrimPrefix(pkgDir, filepath.Join(interp.context.GOPATH, "src")+"/")
	if root == wd {
		return "", fmt.Errorf("package location %s not in GOPATH", pkgDir)
	}
	return root, nil
}
''', '''// It is meant to be called in the case when the initial input is a main package.
// The root is noRoot if the input is not a file.
func (interp *Interpreter) rootFromSourceLocation() (string, error) {
	sourceFile := interp.name
	if sourceFile == DefaultSourceName || sourceFile == "" {
		return noRoot, nil
	}
	pkgDir, err := filepath.Abs(filepath.Dir(sourceFile))
	if err != nil {
		return "", err
	}
	goSrc, err := filepath.Abs(filepath.Join(interp.context.GOPATH, "src"))
	if err != nil {
		return "", err
	}
	root := strings.TrimPrefix(pkgDir, goSrc+string(filepath.Separator))
	if root == pkgDir {
		return "", fmt.Errorf("package location %s not in GOPATH", pkgDir)
	}
	return root, nil
}

// noRoot is the root of the dependencies of a package which is not located below GOPATH/src.
const noRoot = ".."

// mainRoot returns the root of the dependencies of the package of root rPath. It is rPath, except
// for the main package given to the interpreter: its imports are resolved from its location, as the
// ones of any other package. The vendor directories apply only to the packages located below them.
func (interp *Interpreter) mainRoot(rPath string) string {
	if rPath != mainID {
		return rPath
	}
	if root, err := interp.rootFromSourceLocation(); err == nil {
		return root
	}
	return noRoot
}
''')
    s = rep(s, '''	dir := filepath.Join(goPath, "src", rPath, importPath)

''', '''	dir := filepath.Join(goPath, "src", rPath, importPath)
	if root == noRoot {
		// No vendor directory applies.
		root, rPath, dir = "", "", filepath.Join(goPath, "src", importPath)
	}

''')
    s = rep(s, '\t"io/fs"\n\t"os"\n', '\t"io/fs"\n')
    t["interp/src.go"] = s

def f16_10(t):
    s = t["interp/gta.go"]
    s = rep(s, '''			// Try to import a binary package first, or a source package
			var pkgName string
''', '''			rpath := rpath
			if isPathRelative(ipath) {
				// A relative path is relative to the importing package. Identify the package by
				// its path from the main package, so that a directory is only one package.
				if rpath == mainID {
					rpath = "."
				}
				ipath, rpath = relativePath(rpath, ipath), mainID
			}
			// Try to import a binary package first, or a source package
			var pkgName string
''')
    t["interp/gta.go"] = s
    s = t["interp/src.go"]
    s = rep(s, '''// isPathRelative returns true''', '''// relativePath returns the relative import path equivalent to path in the package of relative path base.
func relativePath(base, path string) string {
	if path = filepath.ToSlash(filepath.Join(base, path)); !isPathRelative(path) {
		path = "./" + path
	}
	return path
}

// isPathRelative returns true''')
    t["interp/src.go"] = s

def f16(t):  # needs f16_4_6 and f16_10
    s = t["interp/src.go"]
    s = rep(s, '''		subRPath := effectivePkg(rPath, importPath)
		var list []*node
''', '''		subRPath := effectivePkg(rPath, importPath)
		if isPathRelative(importPath) {
			// The package is located by its path from the main package, not from GOPATH/src.
			subRPath = relativePath(rPath, importPath)
		}
		var list []*node
''')
    s = rep(s, '''	pkgDir, err := filepath.Abs(filepath.Dir(sourceFile))
	if err != nil {
''', '''	return interp.rootFromDir(filepath.Dir(sourceFile))
}

// rootFromDir returns the path to the directory dir, relative to $GOPATH/src.
func (interp *Interpreter) rootFromDir(dir string) (string, error) {
	pkgDir, err := filepath.Abs(dir)
	if err != nil {
''')
    s = rep(s, '''// for the main package given to the interpreter: its imports are resolved from its location, as the
// ones of any other package. The vendor directories apply only to the packages located below them.
func (interp *Interpreter) mainRoot(rPath string) string {
	if rPath != mainID {
		return rPath
	}
	if root, err := interp.rootFromSourceLocation(); err == nil {
		return root
	}
	return noRoot
}
''', '''// for the main package given to the interpreter and the packages imported by a relative path: their
// imports are resolved from their location, as the ones of any other package. The vendor directories
// apply only to the packages located below them.
func (interp *Interpreter) mainRoot(rPath string) string {
	var err error
	switch {
	case rPath == mainID:
		rPath, err = interp.rootFromSourceLocation()
	case isPathRelative(rPath):
		rPath, err = interp.rootFromDir(filepath.Join(filepath.Dir(interp.name), rPath))
	}
	if err != nil {
		return noRoot
	}
	return rPath
}
''')
    t["interp/src.go"] = s

def f16_2(t):  # needs f16_4_6
    s = t["interp/src.go"]
    s = rep(s, "err = interp.pkgDir(interp.context.GOPATH, ", "err = interp.goPkgDir(interp.context.GOPATH, ", 2)
    s = rep(s, '''// pkgDir returns the absolute path in filesystem for a package given its import path
// and the root of the subtree dependencies.
''', '''// goPkgDir returns the result of pkgDir, skipping the directories without Go files in the vendor
// directories: as for the go tool, they are not packages, but the parent directories of packages.
func (interp *Interpreter) goPkgDir(goPath string, root, importPath string) (string, string, error) {
	for {
		dir, rPath, err := interp.pkgDir(goPath, root, importPath)
		if err != nil || filepath.Base(rPath) != vendor || hasGoFiles(interp.opt.filesystem, dir) {
			return dir, rPath, err
		}
		// Continue from the directory above the one of the vendor directory, if any.
		if root = filepath.Dir(rPath); root == "." {
			root = noRoot
		} else if root = filepath.Dir(root); root == "." {
			root = ""
		}
	}
}

// hasGoFiles returns true if the directory dir contains Go files.
func hasGoFiles(filesystem fs.FS, dir string) bool {
	files, _ := fs.ReadDir(filesystem, dir)
	for _, file := range files {
		if !file.IsDir() && strings.HasSuffix(file.Name(), ".go") {
			return true
		}
	}
	return false
}

// pkgDir returns the absolute path in filesystem for a package given its import path
// and the root of the subtree dependencies.
''')
    t["interp/src.go"] = s

PATCHES = {"F16-3": f16_3, "F16-9": f16_9, "F16-1": f16_1, "F16-7": f16_7, "F16-4_F16-6": f16_4_6,
           "F16-10": f16_10, "F16": f16, "F16-2": f16_2}
DEPS = {"F16": ["F16-4_F16-6", "F16-10"], "F16-2": ["F16-4_F16-6"]}
SERIES = ["F16-3", "F16-9", "F16-1", "F16-7", "F16-4_F16-6", "F16-10", "F16", "F16-2"]

def state(names):
    t = {f: head(f) for f in FILES}
    for n in names:
        PATCHES[n](t)
    return t

def diff(a, b):
    out = ""
    for f in FILES:
        if a[f] == b[f]:
            continue
        d = tempfile.mkdtemp()
        for side, t in (("a", a), ("b", b)):
            os.makedirs(os.path.join(d, side, os.path.dirname(f)))
            open(os.path.join(d, side, f), "w").write(t[f])
        r = subprocess.run(["diff", "-u", "--label", "a/" + f, "--label", "b/" + f, "a/" + f, "b/" + f], cwd=d, stdout=subprocess.PIPE, text=True)
        out += "diff --git a/%s b/%s\n" % (f, f) + r.stdout
        shutil.rmtree(d)
    return out

def main():
    for n in PATCHES:
        base = state(DEPS.get(n, []))
        open(os.path.join(WT, "fix-%s.diff" % n), "w").write(diff(base, state(DEPS.get(n, []) + [n])))
    os.makedirs(os.path.join(WT, "series"), exist_ok=True)
    for k, n in enumerate(SERIES):
        open(os.path.join(WT, "series", "%02d-fix-%s.diff" % (k + 1, n)), "w").write(diff(state(SERIES[:k]), state(SERIES[:k + 1])))
    open(os.path.join(WT, "fix-all.diff"), "w").write(diff(state([]), state(SERIES)))
    if len(sys.argv) > 1:  # write a state into the work tree
        names = SERIES if sys.argv[1] == "all" else sys.argv[1:]
        for f, c in state(names).items():
            open(os.path.join(os.environ.get("OUT", WT), f), "w").write(c)

main()
