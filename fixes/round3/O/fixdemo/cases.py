#!/usr/bin/env python3
"""Regression cases for the source import resolution (F16*). Each case is materialised in
fixdemo/<id>/<name>/ and run with the go tool (GOPATH mode) and with the interpreter."""
import os, shutil, subprocess, sys

ROOT = os.path.dirname(os.path.abspath(__file__))
DRV = os.path.join(ROOT, "drv")

def pkg_src(name, d, imports):
    s = "package %s\n\nimport \"fmt\"\n" % name
    for k, im in enumerate(imports):
        s += "import p%d %q\n".replace("%q", '"%s"') % (k, im)
    s += "\nfunc init() { fmt.Println(\"init %s\") }\n\nfunc M() string {\n\ts := \"%s\"\n" % (d, d)
    for k in range(len(imports)):
        s += "\ts += \"(\" + p%d.M() + \")\"\n" % k
    s += "\treturn s\n}\n"
    return s

def main_src(imports):
    s = "package main\n\nimport \"fmt\"\n"
    for k, im in enumerate(imports):
        s += "import p%d \"%s\"\n" % (k, im)
    s += "\nfunc main() {\n"
    for k in range(len(imports)):
        s += "\tfmt.Println(\"main \" + p%d.M())\n" % k
    s += "\tfmt.Println(\"done\")\n}\n"
    return s

CASES = []
def case(fid, name, entry, main, imports, pkgs, files=None, expect=None):
    CASES.append(dict(fid=fid, name=name, entry=entry, main=main, imports=imports, pkgs=pkgs, files=files or {}, expect=expect))

def materialise(c):
    top = os.path.join(ROOT, c["fid"], c["name"])
    shutil.rmtree(top, ignore_errors=True)
    os.makedirs(os.path.join(top, "gp/src"))
    for d, name, imports in c["pkgs"]:
        os.makedirs(os.path.join(top, d), exist_ok=True)
        with open(os.path.join(top, d, name + ".go"), "w") as f:
            f.write(pkg_src(name, d, imports))
    md = "." if c["entry"] in ("eval", "top") else "gp/src/" + c["main"]
    os.makedirs(os.path.join(top, md), exist_ok=True)
    with open(os.path.join(top, md, "main.go"), "w") as f:
        f.write(main_src(c["imports"]))
    for p, content in c["files"].items():
        os.makedirs(os.path.dirname(os.path.join(top, p)), exist_ok=True)
        with open(os.path.join(top, p), "w") as f:
            f.write(content)
    with open(os.path.join(top, "entry.txt"), "w") as f:
        f.write("%s %s\n" % (c["entry"], c["main"]))
    return top, md

def run(cmd, cwd, env):
    r = subprocess.run(cmd, cwd=cwd, env=env, stdout=subprocess.PIPE, stderr=subprocess.PIPE, text=True, timeout=120)
    return r.returncode, r.stdout, r.stderr

def classify(rc, out, err):
    if rc == 0:
        # the order of the init functions of independent packages is not specified the same way
        # (go: by import path, yaegi: in import order): compare them as a multiset
        ls = out.splitlines()
        return "ok\n" + "\n".join(sorted(l for l in ls if l.startswith("init ")) + [l for l in ls if not l.startswith("init ")])
    e = out + err
    for pat, cl in (("must be imported as", "notallowed"), ("use of vendored package", "notallowed"),
                    ("vendor element", "notallowed"),
                    ("cannot find package", "notfound"), ("unable to find source", "notfound"), ("no Go files", "notfound"),
                    ("import cycle", "cycle")):
        if pat in e:
            return cl
    return "error: " + e

def main():
    only = sys.argv[1:]
    bad = 0
    for c in CASES:
        if only and c["fid"] not in only:
            continue
        top, md = materialise(c)
        gp = os.path.join(top, "gp")
        genv = dict(os.environ, GO111MODULE="off", GOPATH=gp, GOFLAGS="", GOPROXY="off", GOTOOLCHAIN="local")
        e = c["entry"]
        if e in ("eval", "top"):
            gcmd, gcwd = ["go", "run", "main.go"], top
            ycmd, ycwd = [DRV, gp, e, "main.go"], top
        elif e == "file":
            gcmd, gcwd = ["go", "run", "main.go"], os.path.join(top, md)
            ycmd, ycwd = [DRV, gp, e, md + "/main.go"], top
        elif e == "fileabs":
            gcmd, gcwd = ["go", "run", "main.go"], os.path.join(top, md)
            ycmd, ycwd = [DRV, gp, e, os.path.join(top, md, "main.go")], top
        elif e == "path":
            gcmd, gcwd = ["go", "run", c["main"]], top
            ycmd, ycwd = [DRV, gp, e, c["main"]], top
        elif e == "dot":
            gcmd, gcwd = ["go", "run", "./"], os.path.join(top, md)
            ycmd, ycwd = [DRV, gp, e, "./"], os.path.join(top, md)
        g = classify(*run(gcmd, gcwd, genv))
        y = classify(*run(ycmd, ycwd, dict(os.environ)))
        if c["expect"] is not None:
            g = c["expect"]  # no toolchain reference (noted in the case)
        st = "same" if g == y else "DIFF"
        if g != y:
            bad += 1
        print("%-6s %-7s %-28s %s" % (st, c["fid"], c["name"], e))
        if g != y:
            print("   go   : " + g.replace("\n", " | "))
            print("   yaegi: " + y.replace("\n", " | "))
    print("differences:", bad)

exec(open(os.path.join(ROOT, "caselist.py")).read())
main()
