#!/bin/bash
# runs, for every patch alone (with its prerequisites), the import related tests in the copy located in a GOPATH
export GOFLAGS=-mod=mod GOPROXY=off GOSUMDB=off GOTOOLCHAIN=local GOPATH=/tmp/gopath-O
G=/tmp/gopath-O/src/github.com/traefik/yaegi
for set in "F16-3" "F16-9" "F16-1" "F16-7" "F16-4_F16-6" "F16-10" "F16-4_F16-6 F16-10 F16" "F16-4_F16-6 F16-2"; do
  OUT=$G python3 /tmp/fixwt3-O/fixdemo/mk.py $set
  echo "=== $set"
  (cd $G && go build ./... && go vet ./interp && go test -vet=off -count=1 -timeout 25m -run 'TestFile|TestInterpConsistencyBuild|TestInterpErrorConsistency|TestNoGoFiles|Test_|TestEval|TestImport|TestMultiEval' ./interp/ ./example/... ./cmd/... 2>&1 | grep -v "^ok" | grep -- "FAIL\|panic" | head -20)
  (cd /tmp/fixwt3-O && go build -o /tmp/fixwt3-O/fixdemo/drv-each $G/fixdemo/driver 2>/dev/null)
done
OUT=$G python3 /tmp/fixwt3-O/fixdemo/mk.py all
echo finished
