package main

import (
	"flag"
	"fmt"
	"os"
)

func main() {
	v := flag.Bool("v", false, "verbose")
	n := flag.Int("n", 1, "count")
	flag.Parse()
	fmt.Println(os.Args[1:], *v, *n, flag.Args(), flag.NArg(), flag.NFlag(), flag.Parsed())
}
