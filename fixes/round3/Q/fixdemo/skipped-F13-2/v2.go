// args: -v -nope a
package main

import (
	"flag"
	"fmt"
	"os"
)

// A Usage set by the script is the one called by flag.Parse on an error.
func main() {
	flag.CommandLine.Init("prog", flag.ContinueOnError)
	flag.CommandLine.SetOutput(os.Stdout)
	v := flag.Bool("v", false, "verbose")
	flag.Usage = func() {
		fmt.Println("custom usage, flags:")
		flag.PrintDefaults()
	}
	flag.Parse()
	fmt.Println(*v, flag.Args(), flag.Parsed())
	flag.Usage()
}
