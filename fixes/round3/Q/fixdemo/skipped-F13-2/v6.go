// args: -n 1
package main

import (
	"flag"
	"fmt"
	"os"
)

// flag.Parse reads os.Args at the time of the call; functions used as values.
func main() {
	intf := flag.Int
	n := intf("n", 0, "count")
	parse, args := flag.Parse, flag.Args
	args2 := []string{"changed", "-n", "5", "z"}
	os.Args = args2
	parse()
	fmt.Println(*n, args(), len(os.Args))
	fs := []func() int{flag.NArg, flag.NFlag}
	for _, f := range fs {
		fmt.Println(f())
	}
}
