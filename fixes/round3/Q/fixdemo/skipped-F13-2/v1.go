// args: -s hello -d 2s -f 1.5 -i64 -7 -u 8 -u64 9 -sv x -dv 3ms -fv 2.5 -iv 4 -i64v 5 -uv 6 -u64v 7 -bv -fn abc -bf -tv 1.2.3.4 rest1 rest2
package main

import (
	"flag"
	"fmt"
	"net"
	"time"
)

func main() {
	s := flag.String("s", "", "a string")
	d := flag.Duration("d", 0, "a duration")
	f := flag.Float64("f", 0, "a float")
	i64 := flag.Int64("i64", 0, "an int64")
	u := flag.Uint("u", 0, "a uint")
	u64 := flag.Uint64("u64", 0, "a uint64")
	var (
		sv   string
		dv   time.Duration
		fv   float64
		iv   int
		i64v int64
		uv   uint
		u64v uint64
		bv   bool
		ip   net.IP
	)
	flag.StringVar(&sv, "sv", "", "")
	flag.DurationVar(&dv, "dv", 0, "")
	flag.Float64Var(&fv, "fv", 0, "")
	flag.IntVar(&iv, "iv", 0, "")
	flag.Int64Var(&i64v, "i64v", 0, "")
	flag.UintVar(&uv, "uv", 0, "")
	flag.Uint64Var(&u64v, "u64v", 0, "")
	flag.BoolVar(&bv, "bv", false, "")
	flag.Func("fn", "a func", func(s string) error { fmt.Println("fn called with", s); return nil })
	flag.BoolFunc("bf", "a bool func", func(s string) error { fmt.Println("bf called with", s); return nil })
	flag.TextVar(&ip, "tv", net.IPv4(0, 0, 0, 0), "an ip")
	unset := flag.Int("unset", 42, "never set")
	fmt.Println("parsed before:", flag.Parsed())
	flag.Parse()
	fmt.Println(*s, *d, *f, *i64, *u, *u64, sv, dv, fv, iv, i64v, uv, u64v, bv, ip, *unset)
	fmt.Println(flag.Args(), flag.NArg(), flag.Arg(0), flag.Arg(1), flag.Arg(2) == "", flag.NFlag(), flag.Parsed())
	flag.Visit(func(f *flag.Flag) { fmt.Print(f.Name, "=", f.Value, " ") })
	fmt.Println()
	n := 0
	flag.VisitAll(func(f *flag.Flag) { n++ })
	fmt.Println("all:", n)
	fmt.Println(flag.Lookup("s").Value, flag.Lookup("nope") == nil)
	fmt.Println(flag.Set("s", "changed"), *s, flag.Set("nope", "x"))
	fmt.Println(flag.CommandLine.Lookup("unset").DefValue, flag.CommandLine.NFlag())
}
