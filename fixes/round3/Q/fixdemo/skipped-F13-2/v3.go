// args: -name bob -x x y
package main

import (
	"flag"
	"fmt"
	"os"
)

// The package level functions follow a reassigned CommandLine.
func main() {
	old := flag.Int("old", 1, "on the first command line")
	other := flag.NewFlagSet("other", flag.ContinueOnError)
	flag.CommandLine = other
	flag.CommandLine.SetOutput(os.Stdout)
	name := flag.String("name", "", "a name")
	flag.Parse()
	fmt.Println(*old, *name, flag.Args(), flag.NArg(), flag.Lookup("old") == nil, flag.CommandLine.Name())
	flag.PrintDefaults()
}
