// args: a b
package main

import (
	"flag"
	"fmt"
	"os"
	"strings"
)

type w struct{}

func (w) Write(b []byte) (int, error) {
	s := string(b)
	if strings.HasPrefix(s, "Usage of ") {
		s = "Usage of PROG:\n"
	}
	return os.Stdout.WriteString(s)
}

// The default Usage, called directly and by a parse error.
func main() {
	flag.CommandLine.SetOutput(w{})
	flag.String("s", "dflt", "a `thing` to set")
	flag.Usage()
	func() {
		defer func() { fmt.Println("recovered:", recover() != nil) }()
		flag.CommandLine.Init("ignored", flag.PanicOnError)
		args := []string{"p", "-bad"}
		os.Args = args
		flag.Parse()
	}()
	fmt.Println(flag.Parsed(), flag.Args())
}
