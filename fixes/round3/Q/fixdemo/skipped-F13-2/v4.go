// args: -cf a -cf b -n 2 -h
package main

import (
	"errors"
	"flag"
	"fmt"
	"os"
	"strings"
)

type list []string

func (l *list) String() string     { return strings.Join(*l, ",") }
func (l *list) Set(s string) error { *l = append(*l, s); return nil }

type opts struct {
	l list
	n *int
}

func setup() *opts {
	o := &opts{}
	flag.Var(&o.l, "cf", "custom flag")
	o.n = flag.Int("n", 0, "count")
	return o
}

func main() {
	fs := flag.CommandLine
	fs.Init("prog", flag.ContinueOnError)
	fs.SetOutput(os.Stdout)
	flag.Usage = func() { fmt.Println("Usage of PROG:"); flag.PrintDefaults() }
	o := setup()
	flag.Parse()
	fmt.Println(o.l.String(), *o.n, flag.NFlag())
	err := fs.Parse([]string{"-h"})
	fmt.Println(errors.Is(err, flag.ErrHelp), err)
	name, usage := flag.UnquoteUsage(flag.Lookup("n"))
	fmt.Println(name, usage)
}
