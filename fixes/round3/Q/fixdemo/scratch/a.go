package main

import (
	"flag"
	"fmt"
	"os"
)

func main() {
	os.Args = []string{"changed", "-n", "5", "z"}
	fmt.Println(os.Args)
	flag.CommandLine = flag.NewFlagSet("other", flag.ContinueOnError)
	fmt.Println(flag.CommandLine.Name())
	flag.ErrHelp = fmt.Errorf("x")
	fmt.Println(flag.ErrHelp)
}
