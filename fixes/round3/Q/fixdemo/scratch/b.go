package main

import (
	"flag"
	"fmt"
	"os"
)

func main() {
	a := []string{"changed", "-n", "5", "z"}
	os.Args = a
	fmt.Println(os.Args)
	fs := flag.NewFlagSet("other", flag.ContinueOnError)
	flag.CommandLine = fs
	fmt.Println(flag.CommandLine.Name())
	os.Args = append(os.Args, "x")
	fmt.Println(os.Args)
	os.Args[0] = "y"
	fmt.Println(os.Args)
}
