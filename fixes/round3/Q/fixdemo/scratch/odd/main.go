package main

import (
	"bytes"
	"fmt"

	"github.com/traefik/yaegi/interp"
	"github.com/traefik/yaegi/stdlib"
	"github.com/traefik/yaegi/stdlib/unrestricted"
)

const src = `import ("log"; "fmt")
func main() {
	var l *log.Logger = log.Default()
	l.SetFlags(0)
	var n *log.Logger = log.New(log.Writer(), "n: ", 0)
	n.Print("new")
	log.SetFlags(0)
	log.Print("pkg")
	fmt.Println("ok")
}`

func run(opt bool, syms ...interp.Exports) {
	var out bytes.Buffer
	i := interp.New(interp.Options{Stdout: &out, Stderr: &out, Unrestricted: opt})
	for _, s := range syms {
		if err := i.Use(s); err != nil {
			panic(err)
		}
	}
	_, err := i.Eval(src)
	fmt.Printf("err=%v out=%q\n", err, out.String())
}

func main() {
	run(false, stdlib.Symbols)
	run(false, stdlib.Symbols, unrestricted.Symbols) // unrestricted symbols without the option
	run(true, stdlib.Symbols)                        // the option without the unrestricted symbols
	run(true, stdlib.Symbols, unrestricted.Symbols)
}
