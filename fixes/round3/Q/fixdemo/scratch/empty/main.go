package main

import (
	"bytes"
	"fmt"

	"github.com/traefik/yaegi/interp"
	"github.com/traefik/yaegi/stdlib"
)

func main() {
	var out bytes.Buffer
	i := interp.New(interp.Options{Args: []string{}, Stdout: &out, Stderr: &out})
	fmt.Println(i.Use(stdlib.Symbols))
	_, err := i.Eval(`import ("flag"; "fmt"; "os")
func main() { fmt.Printf("%q %d\n", flag.CommandLine.Name(), len(os.Args)); flag.Parse() }`)
	fmt.Println(err, out.String())
}
