package main

import (
	"fmt"
	"log"
	"os"
)


// log.New and the package level functions work as before.
func main() {
	log.SetFlags(0)
	log.SetOutput(os.Stdout)
	log.Print("print ", 7)
	log.Printf("printf %v", 7)
	log.Println("println", 7)
	fmt.Println(log.Flags(), log.Prefix() == "", log.Writer() == os.Stdout)
	l := log.New(os.Stdout, "n: ", log.Lmsgprefix)
	l.Println("new", 7)
	fmt.Println(l.Flags(), l.Prefix())
	func() {
		defer func() { fmt.Println("recovered:", recover()) }()
		log.Panic("pkg panic")
	}()
	func() {
		defer func() { fmt.Println("recovered:", recover()) }()
		l.Panicf("new panic %d", 1)
	}()
	defer fmt.Println("deferred")
	log.Fatal("pkg fatal")
}
