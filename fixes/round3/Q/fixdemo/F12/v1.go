package main

import (
	"bytes"
	"fmt"
	"log"
	"os"
)

type holder struct{ l *log.Logger }

func use(l *log.Logger, s string) { l.Println("use:", s) }

// The default logger is a log.Logger of the script, and shares its state with the package level functions.
func main() {
	var l *log.Logger = log.Default()
	l.SetFlags(0)
	fmt.Println(l == log.Default(), log.Flags(), l.Writer() == os.Stderr)
	log.SetPrefix("p: ")
	fmt.Println(l.Prefix(), log.Prefix())
	l.SetPrefix("q: ")
	log.Print("from package")
	l.Print("from default")
	h := holder{log.Default()}
	h.l.Printf("%d-%s", 1, "x")
	use(log.Default(), "arg")
	use(log.New(os.Stderr, "new: ", 0), "arg")

	var buf bytes.Buffer
	log.Default().SetOutput(&buf)
	log.Println("to buffer", 1, "e")
	l.Println("also", 2)
	log.Output(1, "output")
	pf, lf := log.Printf, log.Default().Printf
	pf("%v %d", "a", 3)
	lf("%v %d", "b", 4)
	fmt.Print(buf.String())
	fmt.Println(log.Writer() == &buf, l.Writer() == &buf)

	func() {
		defer func() { fmt.Println("recovered:", recover()) }()
		log.Panicln("panic", 5)
	}()
	func() {
		defer func() { fmt.Println("recovered:", recover()) }()
		log.Default().Panicf("%v", 6)
	}()
	fmt.Print(buf.String())
}
