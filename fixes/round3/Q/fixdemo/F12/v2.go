package main

import (
	"fmt"
	"log"
)

func get() *log.Logger { return log.Default() }

// Fatalf through a function result, in a nested call.
func main() {
	defer fmt.Println("deferred")
	get().SetFlags(0)
	func() {
		get().Fatalf("fatal %d", 1)
	}()
	fmt.Println("not reached")
}
