package main

import (
	"fmt"
	"log"
)

// Fatalln on the default logger stored in an interface and in a map.
func main() {
	log.SetFlags(0)
	m := map[string]interface{ Fatalln(...interface{}) }{"d": log.Default()}
	defer fmt.Println("deferred")
	m["d"].Fatalln("fatal", 2)
	fmt.Println("not reached")
}
