package main

import (
	"fmt"
	"log"
)

func main() {
	log.Default().SetFlags(0)
	log.Default().Print("hello")
	defer fmt.Println("deferred")
	log.Default().Fatal("bye")
}
