package main

import (
	"flag"
	"fmt"
)

// NOT repaired: the error handling set by (*FlagSet).Init is out of reach of a
// rebinding of flag.NewFlagSet; this still ends the host with status 2.
func main() {
	defer fmt.Println("deferred")
	var fs flag.FlagSet
	fs.Init("x", flag.ExitOnError)
	fmt.Println(fs.Parse([]string{"-nope"}))
}
