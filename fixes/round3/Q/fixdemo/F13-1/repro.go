package main

import (
	"flag"
	"fmt"
)

func main() {
	defer fmt.Println("deferred")
	fs := flag.NewFlagSet("x", flag.ExitOnError)
	err := fs.Parse([]string{"-nope"})
	fmt.Println("err:", err)
}
