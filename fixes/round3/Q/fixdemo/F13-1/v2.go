package main

import (
	"flag"
	"fmt"
	"os"
)

type cmd struct {
	name string
	fs   *flag.FlagSet
}

func newCmd(name string, mk func(string, flag.ErrorHandling) *flag.FlagSet) *cmd {
	c := &cmd{name: name, fs: mk(name, flag.ExitOnError)}
	c.fs.SetOutput(os.Stdout)
	return c
}

// NewFlagSet used as a function value, the flag set in a struct, a bad value.
func main() {
	c := newCmd("sub", flag.NewFlagSet)
	n := c.fs.Int("n", 1, "count")
	fmt.Println(c.fs.Parse([]string{"-n", "3", "a"}), *n, c.fs.Args())
	fmt.Println(c.fs.Parse([]string{"-n", "zz"}), *n)
	fmt.Println("not reached")
}
