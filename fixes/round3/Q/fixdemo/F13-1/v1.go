package main

import (
	"flag"
	"fmt"
	"os"
)

// -h on an ExitOnError flag set: usage, then exit status 0 (a panic in restricted mode).
func main() {
	defer fmt.Println("deferred")
	fs := flag.NewFlagSet("x", flag.ExitOnError)
	fs.SetOutput(os.Stdout)
	fs.Int("n", 1, "count")
	err := fs.Parse([]string{"-h"})
	fmt.Println("err:", err)
}
