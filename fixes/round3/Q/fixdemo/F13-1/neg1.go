package main

import (
	"errors"
	"flag"
	"fmt"
	"io"
)

// The other error handlings are unchanged.
func main() {
	fs := flag.NewFlagSet("c", flag.ContinueOnError)
	fs.SetOutput(io.Discard)
	fmt.Println(fs.Parse([]string{"-nope"}), fs.ErrorHandling() == flag.ContinueOnError, fs.Name())
	fmt.Println(errors.Is(fs.Parse([]string{"-help"}), flag.ErrHelp))

	ps := flag.NewFlagSet("p", flag.PanicOnError)
	ps.SetOutput(io.Discard)
	func() {
		defer func() { fmt.Println("recovered:", recover()) }()
		ps.Parse([]string{"-nope"})
	}()
	fmt.Println(ps.ErrorHandling() == flag.PanicOnError)

	var zero flag.FlagSet
	zero.SetOutput(io.Discard)
	b := zero.Bool("b", false, "")
	fmt.Println(zero.Parse([]string{"-b", "-x"}), *b)

	es := flag.NewFlagSet("e", flag.ExitOnError)
	s := es.String("s", "", "")
	fmt.Println(es.Parse([]string{"-s", "ok", "rest"}), *s, es.Args(), es.NFlag(), es.Parsed())
}
