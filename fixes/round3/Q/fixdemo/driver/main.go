// Command driver runs a Go script in a restricted yaegi interpreter whose
// streams are buffers, and reports what the script wrote and whether the
// host is still alive.
//
//	driver [-args a,b,c] [-env K=V,K=V] [-file] [-unrestricted] script.go
package main

import (
	"bytes"
	"flag"
	"fmt"
	"os"
	"strings"

	"github.com/traefik/yaegi/interp"
	"github.com/traefik/yaegi/stdlib"
	"github.com/traefik/yaegi/stdlib/unrestricted"
)

func main() {
	argsF := flag.String("args", "", "comma separated Options.Args (empty: nil)")
	envF := flag.String("env", "", "comma separated Options.Env")
	fileF := flag.Bool("file", false, "pass os.Stdout / os.Stderr instead of buffers")
	unrF := flag.Bool("unrestricted", false, "Options.Unrestricted + unrestricted.Symbols")
	flag.Parse()

	var stdout, stderr bytes.Buffer
	opts := interp.Options{Stdin: strings.NewReader("in\n"), Stdout: &stdout, Stderr: &stderr, Unrestricted: *unrF}
	if *fileF {
		opts.Stdout, opts.Stderr = os.Stdout, os.Stderr
	}
	if *argsF != "" {
		opts.Args = strings.Split(*argsF, ",")
	}
	if *envF != "" {
		opts.Env = strings.Split(*envF, ",")
	}
	i := interp.New(opts)
	if err := i.Use(stdlib.Symbols); err != nil {
		panic(err)
	}
	if *unrF {
		if err := i.Use(unrestricted.Symbols); err != nil {
			panic(err)
		}
	}
	func() {
		defer func() {
			if r := recover(); r != nil {
				fmt.Printf("HOST recovered: %v\n", r)
			}
		}()
		if _, err := i.EvalPath(flag.Arg(0)); err != nil {
			fmt.Printf("HOST eval error: %v\n", err)
		}
	}()
	fmt.Printf("--- script stdout ---\n%s--- script stderr ---\n%s--- host alive ---\n", stdout.String(), stderr.String())
}
