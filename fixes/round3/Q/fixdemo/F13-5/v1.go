package main

import (
	"flag"
	"fmt"
	"os"
)

// The "Usage of ..." line of a parse error names Options.Args[0], as os.Args[0] does.
func main() {
	fmt.Println(flag.CommandLine.Name() == os.Args[0], len(os.Args))
	flag.CommandLine.SetOutput(os.Stdout)
	flag.CommandLine.Init(flag.CommandLine.Name(), flag.ContinueOnError)
	flag.CommandLine.Bool("v", false, "verbose")
	fmt.Println(flag.CommandLine.Parse([]string{"-nope"}))
	fmt.Println(flag.CommandLine.Parse(os.Args[1:]), flag.CommandLine.Args())
}
