package main

import (
	"flag"
	"fmt"
)

func main() {
	fmt.Println(flag.CommandLine.Name())
}
