package main

import (
	"flag"
	"fmt"
	"os"
)

// Works with an empty Options.Args as well (no panic when the symbols are loaded).
func main() {
	fmt.Printf("%q %d\n", flag.CommandLine.Name(), len(os.Args))
}
