#!/bin/sh
# cmp.sh <driver> prog.go... : compares `go run` with the interpreter (streams passed as files).
export GOFLAGS=-mod=mod GOPROXY=off GOSUMDB=off GOTOOLCHAIN=local
drv=$1; shift
for f in "$@"; do
	args=$(sed -n '1s,^// args: ,,p' $f)
	(cd /tmp && go run $OLDPWD/$f $args) > /tmp/Q-go.out 2>&1; echo "status $?" >> /tmp/Q-go.out
	$drv -file -args "$(echo prog $args | tr ' ' ,)" $f 2>&1 | sed '/^--- script stdout ---$/,$d' > /tmp/Q-yaegi.out; echo "status 0" >> /tmp/Q-yaegi.out
	if diff /tmp/Q-go.out /tmp/Q-yaegi.out > /tmp/Q-diff.out; then echo "SAME $f"; else echo "DIFF $f"; cat /tmp/Q-diff.out; fi
done
