package main

func main() {
	println("ran")
	nil <- 1
}
