package main

func main() {
	println("ran")
	v0 := [2]int{}[nil]; _ = v0
}
