package main

func main() {
	println("ran")
	select { case nil <- 1: }
}
