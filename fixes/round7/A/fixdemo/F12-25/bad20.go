package main

func main() {
	println("ran")
	v0 := 1 << nil; _ = v0
}
