package main

func main() {
	println("ran")
	v0, ok := <-nil; _, _ = v0, ok
}
