package main

func main() {
	println("ran")
	v0 := nil != nil; _ = v0
}
