package main

func main() {
	println("ran")
	var b bool = nil == nil; _ = b
}
