package main

func main() {
	println("ran")
	println(nil == nil)
}
