package main

func main() {
	println("ran")
	v0 := map[string]int{}[nil]; _ = v0
}
