package main

func main() {
	println("ran")
	var p *int; v0 := (p == nil) == (nil == nil); _ = v0
}
