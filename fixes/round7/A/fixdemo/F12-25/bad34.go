package main

func main() {
	println("ran")
	var f float64 = 2.5 - nil; _ = f
}
