package main

func main() {
	println("ran")
	v0 := 'a' + nil; _ = v0
}
