package main

func main() {
	println("ran")
	v0 := nil == 1; _ = v0
}
