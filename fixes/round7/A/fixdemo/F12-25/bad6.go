package main

func main() {
	println("ran")
	v0 := nil[0]; _ = v0
}
