package main

func main() {
	println("ran")
	go nil()
}
