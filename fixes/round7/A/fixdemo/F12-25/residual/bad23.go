package main

func main() {
	println("ran")
	v0 := nil.x; _ = v0
}
