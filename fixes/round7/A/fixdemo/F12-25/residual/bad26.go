package main

func main() {
	println("ran")
	v0 := len(nil); _ = v0
}
