package main

// Pre-existing divergence (not F12-25): nil != x with nil on the LEFT evaluates child 0 (nil) in isNotNil.
func main() {
	s := []int{1}
	println(nil != s, s != nil) // go: true true; yaegi: false true
}
