package main

func main() {
	println("ran")
	v0 := nil[1:2]; _ = v0
}
