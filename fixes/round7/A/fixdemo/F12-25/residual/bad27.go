package main

func main() {
	println("ran")
	for range nil {}
}
