package main

func main() {
	println("ran")
	v0 := nil(); _ = v0
}
