package main

func main() {
	println("ran")
	v0 := nil == "s"; _ = v0
}
