package main

import (
	"fmt"
	"unsafe"
)

type T struct{ x int }
type E interface{ Error() string }
type C chan int
type F func() int

func get() error { return nil }

func main() {
	var p *T
	var s []int
	var m map[string]int
	var c chan int
	var rc <-chan int
	var sc chan<- int
	var nc C
	var f func()
	var nf F
	var i interface{}
	var e error
	var u unsafe.Pointer
	fmt.Println(p == nil, nil == p, s == nil, s != nil, m == nil, c == nil, rc == nil, nil == sc, nc == nil, f == nil, nil == nf, i == nil, nil == e, u == nil, u != nil)
	fmt.Println(get() == nil, nil == get(), (p == nil) == (s == nil), !(nil == m))
	p = &T{1}
	s = []int{1}
	m = map[string]int{}
	c = make(chan int, 2)
	rc, sc, nc = c, c, c
	f = func() {}
	nf = func() int { return 1 }
	i = 1
	e = fmt.Errorf("x")
	u = unsafe.Pointer(p)
	fmt.Println(p == nil, nil == p, s == nil, s != nil, m == nil, c == nil, rc == nil, nil == sc, nc == nil, f == nil, nil == nf, i == nil, nil == e, u == nil, u != nil)
	sc <- 3
	nc <- 4
	v, ok := <-rc
	fmt.Println(v, ok, <-nc, c == nc, rc == c)
	a := &[3]int{1, 2, 3}
	pa := [2]*[3]int{a, nil}
	fmt.Println(a[1], pa[0][2], pa[1] == nil, "abc"[1], m["k"], s[0], [2]string{"a", "b"}[1])
	switch {
	case p != nil && s != nil:
		fmt.Println("both")
	}
	if x := map[string]*T{"a": nil}; x["a"] == nil && x["b"] == nil {
		fmt.Println("nil entries")
	}
	var ip *interface{}
	fmt.Println(ip == nil, i != nil)
	const k = 1 + 2
	fmt.Println(k == 3, "s"+"t" == "st", 1.5*2 == 3, 'a'+1, true == !false)
}
