package main

func main() {
	println("ran")
	v0 := true == nil; _ = v0
}
