package main

func main() {
	println("ran")
	var x int; x += nil
}
