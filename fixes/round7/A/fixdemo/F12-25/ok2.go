package main

import "fmt"

type N struct{ next *N }

func (n *N) last() *N {
	for n != nil && n.next != nil {
		n = n.next
	}
	return n
}

func recv(c <-chan string) string {
	select {
	case s, ok := <-c:
		if !ok {
			return "closed"
		}
		return s
	default:
		return "empty"
	}
}

func main() {
	l := &N{&N{&N{nil}}}
	fmt.Println(l.last().next == nil, (*N)(nil).last() == nil)
	c := make(chan string, 1)
	fmt.Println(recv(c))
	c <- "a"
	fmt.Println(recv(c))
	close(c)
	fmt.Println(recv(c))
	var fs []func() error
	fs = append(fs, nil, func() error { return nil })
	for i, f := range fs {
		if f == nil {
			fmt.Println(i, "nil func")
			continue
		}
		fmt.Println(i, f() == nil)
	}
	var e interface{} = (*N)(nil)
	fmt.Println(e == nil, e.(*N) == nil)
	mm := map[string][]int{"a": nil}
	fmt.Println(mm["a"] == nil, len(mm["a"]), mm["a"][:0] == nil)
	cc := make(chan chan int, 1)
	cc <- nil
	fmt.Println(<-cc == nil)
}
