package main

func main() {
	println("ran")
	v0 := nil << 2; _ = v0
}
