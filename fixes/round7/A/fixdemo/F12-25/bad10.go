package main

func main() {
	println("ran")
	v0 := 1.5 * nil; _ = v0
}
