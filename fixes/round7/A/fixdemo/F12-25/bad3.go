package main

func main() {
	println("ran")
	v0 := "s" + nil; _ = v0
}
