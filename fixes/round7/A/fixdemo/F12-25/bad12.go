package main

func main() {
	println("ran")
	if nil == nil { println("x") }
}
