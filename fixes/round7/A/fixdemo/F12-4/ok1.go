package main

import (
	"fmt"
	"time"
)

type MyInt int
type MyStr string
type B bool
type Celsius float64
type Stringer interface{ String() string }

func (m MyInt) String() string { return fmt.Sprint("MyInt(", int(m), ")") }

type P struct {
	x, y int
	name string
	ok   B
}

func neg(a int) int             { return -a }
func sub(a, b float64) float64  { return a - b*2.5 }
func cat(a, b string) string    { return a + "-" + b }
func mcat(a MyStr) MyStr        { return a + "!" }
func eq(a, b int) bool          { return a == b }
func beq(a, b int) B            { return a != b }
func nb(a, b int) B             { return !(a < b) }
func not(b B) B                 { return !b }
func ifc(a int) interface{}     { return a * 3 }
func ifc2(a int) interface{}    { return a > 3 }
func str(a MyInt) Stringer      { return a + 1 }
func str2(a MyInt) fmt.Stringer { return -a }
func two(a int) (int, string)   { return a << 2, fmt.Sprint(a) + "x" }
func named(a int) (r int, e error) {
	r = a * a
	return r + 1, nil
}
func swap(a, b int) (x, y int) {
	x, y = a, b
	return y + 0, x + 0
}
func dur(n int) time.Duration { return time.Duration(n) * time.Millisecond }
func sh(n uint) int           { return 1 << n }
func sh64(n uint) int64       { return 1 << n }
func fl(a float64) float64    { return a * 2 }
func cx(a complex128) complex128 {
	return a * 2i
}
func bnot(a uint8) uint8 { return ^a }
func mi(a MyInt) MyInt   { return a % 3 }

func main() {
	var a, x int = 7, 1
	var s string = "s"
	var b bool
	var nb2 B
	var f float64 = 1.5
	var m MyInt = 4
	var ms MyStr = "ms"
	var c Celsius = 20
	var i interface{}
	var st Stringer
	var i8 int8 = 100
	var u8 uint8 = 200
	var d time.Duration
	var p P
	arr := [3]int{}
	sl := []string{"", ""}
	mp := map[string]float64{}
	pm := &m

	x = x + 1
	s = s + "a"
	f = f * 2.5
	f = 2 * f
	f = f / 2
	f = -f
	a = a - 3
	a = -a
	a = ^a
	a = a % 5
	a = 100 % a
	a = a << 2
	a = 1 << uint(x)
	b = a == a
	b = !b
	b = a < 3 || s == "sa"
	nb2 = a > 3
	nb2 = !(a > 3)
	nb2 = !nb2
	nb2 = (a == x) == (s != "")
	m = m + 1
	m = 2 * m
	m = -m
	ms = ms + "x"
	ms = "y" + ms
	c = c*9/5 + 32
	c = c - 0.5
	i = a + 1
	fmt.Println(i)
	i = a == 1
	fmt.Println(i)
	i = -f
	fmt.Println(i)
	i = s + "!"
	fmt.Println(i)
	st = m + 1
	fmt.Println(st)
	st = -m
	fmt.Println(st)
	i8 = i8 + 100
	u8 = u8 + 100
	u8 = -u8
	d = d + time.Second
	d = 2 * d
	d = d * time.Duration(a)
	p.x = a + 1
	p.y = -p.x
	p.name = s + "n"
	p.ok = p.x > p.y
	arr[0] = a * 2
	arr[1] = -arr[0]
	arr[2] = arr[0] << 1
	sl[0] = s + "0"
	sl[1] = sl[0] + sl[0]
	mp["a"] = f * 2
	mp["b"] = -mp["a"]
	*pm = *pm + 10
	*pm = -*pm
	a, x = x+1, a+1
	f, s = f+1, s+"t"
	fmt.Println(a, x, s, b, nb2, f, m, ms, c, i8, u8, d, p, arr, sl, mp, *pm)
	fmt.Println(neg(3), sub(10, 2), cat("a", "b"), mcat("m"), eq(1, 1), beq(1, 1), nb(1, 2), not(true), ifc(2), ifc2(2), str(1), str2(2))
	fmt.Println(two(3))
	fmt.Println(named(3))
	fmt.Println(swap(1, 2))
	fmt.Println(dur(3), sh(4), sh64(40), fl(1.25), cx(1+1i), bnot(1), mi(8))
	var ch = make(chan int, 1)
	ch <- 5
	a = <-ch
	ch <- 6
	i = <-ch
	fmt.Println(a, i)
	var fn func() int
	fn = func() int { return a + 1 }
	fmt.Println(fn())
	var e error
	b = e == nil
	nb2 = e != nil
	fmt.Println(b, nb2)
	var u uint = 3
	var i64 int64
	i64 = 1 << u
	f = 1 << 3
	fmt.Println(i64, f)
}
