package main

type MyInt int
type MyStr string

func g(a MyInt) int { return -a }

func main() {
	println("ran")
	var a int
	var s string
	var b bool
	var f float64
	var m MyInt
	var i8 int8
	_, _, _, _, _, _ = a, s, b, f, m, i8
	_ = g(m)
}
