package main

import "fmt"

type MyInt int

func (m MyInt) String() string { return fmt.Sprint("MyInt(", int(m), ")") }

func mi(a MyInt) MyInt { return a % 3 }
func mj(a MyInt) MyInt { return a + 3 }

func main() {
	fmt.Println(mi(8), mj(8))
}
