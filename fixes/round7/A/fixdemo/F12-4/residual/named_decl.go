package main

type MyInt int

func main() {
	var a int
	var m MyInt = a
	var m2 MyInt = a + a
	m = a
	println(m, m2)
}
