package main

import (
	"fmt"
	"strings"
)

type Num interface{ ~int | ~float64 }

func Sum[T Num](xs []T) T {
	var t T
	for _, x := range xs {
		t = t + x
	}
	return t * 2
}

func Neg[T Num](x T) T { return -x }

type V struct{ x, y float64 }

func (v V) Len2() float64  { return v.x*v.x + v.y*v.y }
func (v *V) Scale(k float64) { v.x = v.x * k; v.y = k * v.y }
func (v V) IsZero() bool     { return v.x == 0 && v.y == 0 }

type Flag uint8

const (
	A Flag = 1 << iota
	Bf
	Cf
)

func (f Flag) Has(g Flag) bool { return f&g != 0 }
func (f Flag) Set(g Flag) Flag { return f | g }
func (f Flag) Clr(g Flag) Flag { return f &^ g }

func addr() *int {
	x := 3
	var p *int
	p = &x
	*p = *p + 1
	return p
}

func ptrs() (*V, **V) {
	v := V{1, 2}
	var p *V
	var pp **V
	p = &v
	pp = &p
	return &v, pp
}

func counter() func() int {
	c := 0
	return func() int {
		c = c + 1
		return c * 10
	}
}

func runes(s string) string {
	var r rune
	var by byte
	out := ""
	for i := 0; i < len(s); i++ {
		by = s[i] - 'a'
		r = rune(by) + 'A'
		out = out + string(r)
	}
	return out + "." + strings.Repeat("x", 2)
}

func div(a, b int) (q, r int, err error) {
	if b == 0 {
		err = fmt.Errorf("div by zero")
		return
	}
	q = a / b
	r = a % b
	return q + 0, r + 0, nil
}

var g int

func glob() int {
	g = g + 5
	g = -g
	return g * 2
}

func main() {
	fmt.Println(Sum([]int{1, 2, 3}), Sum([]float64{1.5, 2}), Neg(3), Neg(float64(2.5)))
	v := V{3, 4}
	v.Scale(2)
	fmt.Println(v, v.Len2(), v.IsZero())
	var f Flag
	f = f.Set(A | Cf)
	f = f | Bf
	f = f &^ A
	f = ^f
	fmt.Println(f, f.Has(Bf), f.Clr(Bf), A, Bf, Cf)
	fmt.Println(*addr())
	p, pp := ptrs()
	fmt.Println(*p, **pp)
	c := counter()
	c()
	fmt.Println(c())
	fmt.Println(runes("abc"))
	fmt.Println(div(7, 2))
	fmt.Println(div(7, 0))
	fmt.Println(glob(), g)
	var i interface{}
	var e fmt.Stringer
	_ = e
	x := 4
	i = &x
	fmt.Println(*(i.(*int)))
	var ok bool
	var m = map[string]int{"a": 1}
	_, ok = m["a"]
	ok = !ok
	var fp *float64
	fl := 2.5
	fp = &fl
	*fp = -*fp
	fmt.Println(ok, fl)
	var ar [2]*int
	ar[0] = &x
	*ar[0] = *ar[0] << 1
	fmt.Println(x)
	func() {
		x = x - 1
		var s string
		s = fmt.Sprint(x) + "!"
		fmt.Println(s)
	}()
	var u uintptr
	u = u + 8
	var c64 complex64
	c64 = c64 + 1i
	c64 = -c64
	fmt.Println(u, c64)
}
