package main

import (
	"errors"
	"fmt"
	"os"
	"strconv"
)

type MyErr struct{ code int }

func (e MyErr) Error() string { return "myerr " + strconv.Itoa(e.code) }

type PErr struct{ code int }

func (e *PErr) Error() string {
	if e == nil {
		return "perr nil"
	}
	return "perr " + strconv.Itoa(e.code)
}

type Coder interface{ Code() int }

func (e MyErr) Code() int { return e.code }

func classify(tag string, e error) {
	switch y := e.(type) {
	case nil:
		fmt.Println(tag, "nil")
	case *os.PathError:
		fmt.Println(tag, "PathError", y.Op)
	case *strconv.NumError:
		fmt.Println(tag, "NumError", y.Func)
	case MyErr:
		fmt.Println(tag, "MyErr", y.code)
	case *PErr:
		fmt.Println(tag, "*PErr", y == nil)
	case fmt.Stringer:
		fmt.Println(tag, "Stringer", y.String())
	default:
		fmt.Println(tag, "default", y)
	}
	switch e.(type) {
	case nil:
		fmt.Println(tag, "nb nil")
	case *os.PathError:
		fmt.Println(tag, "nb PathError")
	case *strconv.NumError:
		fmt.Println(tag, "nb NumError")
	case MyErr:
		fmt.Println(tag, "nb MyErr")
	case *PErr:
		fmt.Println(tag, "nb *PErr")
	case fmt.Stringer:
		fmt.Println(tag, "nb Stringer")
	default:
		fmt.Println(tag, "nb default")
	}
	switch y := e.(type) {
	case Coder:
		fmt.Println(tag, "Coder", y.Code())
	case *os.PathError, *strconv.NumError:
		fmt.Println(tag, "multi", y)
	case interface{ Timeout() bool }:
		fmt.Println(tag, "Timeout", y.Timeout())
	}
}

func classifyAny(tag string, x interface{}) {
	switch y := x.(type) {
	case nil:
		fmt.Println(tag, "nil")
	case error:
		fmt.Println(tag, "error", y.Error())
	case fmt.Stringer:
		fmt.Println(tag, "Stringer", y.String())
	case int:
		fmt.Println(tag, "int", y+1)
	case string:
		fmt.Println(tag, "string", y+"!")
	default:
		fmt.Println(tag, "default", y)
	}
	switch x.(type) {
	case nil:
		fmt.Println(tag, "nb nil")
	case error:
		fmt.Println(tag, "nb error")
	case fmt.Stringer:
		fmt.Println(tag, "nb Stringer")
	case int, string:
		fmt.Println(tag, "nb int/string")
	default:
		fmt.Println(tag, "nb default")
	}
}

type S struct{ s string }

func (s S) String() string { return "S:" + s.s }

func main() {
	_, e1 := os.Open("/nonexistent/file")
	_, e2 := strconv.Atoi("zz")
	classify("e0", nil)
	classify("e1", e1)
	classify("e2", e2)
	classify("e5", errors.New("plain"))
	classifyAny("a0", nil)
	classifyAny("a1", e1)
	classifyAny("a2", e2)
	classifyAny("a3", MyErr{3})
	classifyAny("a4", &PErr{4})
	classifyAny("a6", S{"x"})
	classifyAny("a8", 7)
	classifyAny("a9", "str")
	classifyAny("a10", 1.5)
}
