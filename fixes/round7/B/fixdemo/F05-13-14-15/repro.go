package main

import "fmt"

type W struct{ nw int }

func (w W) Get() int { return w.nw }
func (w *W) Inc()    { w.nw++ }

type IG interface{ Get() int }
type II interface{ Inc() }

func main() {
	var v W
	var i IG = &v
	// F05-13: non-empty interface operand, interface clause / nil
	switch i.(type) {
	case II:
		fmt.Println("13a II")
	default:
		fmt.Println("13a default")
	}
	switch y := i.(type) {
	case II:
		y.Inc()
		fmt.Println("13b II", v.nw)
	default:
		fmt.Println("13b default", y)
	}
	var j IG = v
	switch j.(type) {
	case II:
		fmt.Println("13c II")
	case IG:
		fmt.Println("13c IG")
	default:
		fmt.Println("13c default")
	}
	var k IG
	switch k.(type) {
	case nil:
		fmt.Println("13d nil")
	default:
		fmt.Println("13d default")
	}
	switch y := k.(type) {
	case nil:
		fmt.Println("13e nil", y)
	default:
		fmt.Println("13e default", y)
	}
	switch k.(type) {
	case II, nil:
		fmt.Println("13f nil")
	default:
		fmt.Println("13f default")
	}
	switch y := k.(type) {
	case II, nil:
		fmt.Println("13g nil", y)
	default:
		fmt.Println("13g default", y)
	}

	// F05-14: interface{} operand, interface clause
	var x interface{} = v
	switch x.(type) {
	case II:
		fmt.Println("14a II")
	case IG:
		fmt.Println("14a IG")
	default:
		fmt.Println("14a default")
	}
	switch y := x.(type) {
	case II:
		fmt.Println("14b II", y)
	case IG:
		fmt.Println("14b IG", y.Get())
	default:
		fmt.Println("14b default")
	}
	var xp interface{} = &v
	switch xp.(type) {
	case II:
		fmt.Println("14c II")
	default:
		fmt.Println("14c default")
	}
	switch y := xp.(type) {
	case II:
		y.Inc()
		fmt.Println("14d II", v.nw)
	default:
		fmt.Println("14d default")
	}

	// F05-15: interface{} operand, struct / pointer clause
	switch y := x.(type) {
	case W:
		fmt.Println("15a W", y.nw)
	default:
		fmt.Println("15a default")
	}
	switch x.(type) {
	case W:
		fmt.Println("15b W")
	default:
		fmt.Println("15b default")
	}
	switch y := xp.(type) {
	case W:
		fmt.Println("15c W", y.nw)
	case *W:
		fmt.Println("15c *W", y.nw)
	default:
		fmt.Println("15c default")
	}
	switch xp.(type) {
	case W:
		fmt.Println("15d W")
	case *W:
		fmt.Println("15d *W")
	default:
		fmt.Println("15d default")
	}
	switch y := x.(type) {
	case *W, W:
		fmt.Println("15e", y.(W).nw)
	default:
		fmt.Println("15e default")
	}
	switch x.(type) {
	case *W, W:
		fmt.Println("15f W")
	default:
		fmt.Println("15f default")
	}
}
