package main

import (
	"errors"
	"fmt"
	"io"
	"sort"
	"strings"
)

type Animal interface{ Sound() string }
type Walker interface{ Walk() string }
type AW interface {
	Animal
	Walker
}
type Dog struct{ name string }

func (d Dog) Sound() string { return d.name + " woof" }
func (d Dog) Walk() string  { return d.name + " walks" }

type Fish struct{ name string }

func (f *Fish) Sound() string { return f.name + " blub" }

type Box struct {
	a Animal
	x interface{}
	e error
}

type Temp float64

func (t Temp) String() string { return fmt.Sprintf("%.1fC", float64(t)) }

type ErrCode int

func (e ErrCode) Error() string { return fmt.Sprintf("code %d", int(e)) }

func mk(i int) Animal {
	switch i {
	case 0:
		return Dog{"rex"}
	case 1:
		return &Fish{"nemo"}
	case 2:
		return &Dog{"ptr"}
	}
	return nil
}

func mkAny(i int) interface{} {
	d, f, t, c := Dog{"d"}, &Fish{"f"}, Temp(21.5), ErrCode(4)
	var x interface{}
	switch i {
	case 0:
		x = d
	case 1:
		var a Animal = f
		x = a
	case 2:
		x = t
	case 3:
		x = c
	case 4:
		x = errors.New("e")
	case 5:
		x = "42"
	}
	return x
}

func describe(a Animal) string {
	switch v := a.(type) {
	case AW:
		return "AW:" + v.Sound() + "/" + v.Walk()
	case Walker:
		return "Walker:" + v.Walk()
	case *Fish:
		return "*Fish:" + v.name
	case nil:
		return "nil"
	}
	return "?"
}

func main() {
	for i := 0; i < 4; i++ {
		fmt.Println("mk", i, describe(mk(i)))
	}
	// call result as operand, init statement
	for i := 0; i < 7; i++ {
		switch x := mkAny(i); v := x.(type) {
		case Animal:
			fmt.Println("any", i, "Animal", v.Sound())
		case fmt.Stringer:
			fmt.Println("any", i, "Stringer", v.String())
		case ErrCode:
			fmt.Println("any", i, "ErrCode", int(v))
		case error:
			fmt.Println("any", i, "error", v.Error())
		case string:
			fmt.Println("any", i, "string", v)
		case nil:
			fmt.Println("any", i, "nil", x == nil)
		}
	}
	// struct fields, map elements, channel receive as operands
	b := Box{a: &Fish{"wanda"}, x: Dog{"fido"}, e: ErrCode(7)}
	switch v := b.a.(type) {
	case Dog:
		fmt.Println("field Dog", v.name)
	case *Fish:
		fmt.Println("field *Fish", v.name)
	}
	switch v := b.x.(type) {
	case Walker:
		fmt.Println("field Walker", v.Walk())
	default:
		fmt.Println("field default")
	}
	switch b.e.(type) {
	case nil:
		fmt.Println("field e nil")
	case error:
		fmt.Println("field e error")
	}
	m := map[string]Animal{"a": Dog{"m"}, "b": &Fish{"n"}}
	keys := []string{"a", "b", "c"}
	sort.Strings(keys)
	for _, k := range keys {
		switch v := m[k].(type) {
		case Dog:
			fmt.Println("map", k, "Dog", v.name)
		case *Fish:
			fmt.Println("map", k, "*Fish", v.name)
		case nil:
			fmt.Println("map", k, "nil")
		}
	}
	ch := make(chan interface{}, 4)
	ch <- Dog{"c"}
	ch <- "str"
	ch <- Temp(1)
	ch <- nil
	close(ch)
	for x := range ch {
		switch v := x.(type) {
		case Animal:
			fmt.Println("chan Animal", v.Sound())
		case string:
			fmt.Println("chan string", v)
		case fmt.Stringer:
			fmt.Println("chan Stringer", v)
		case nil:
			fmt.Println("chan nil")
		}
	}
	// captured bound variable, nested switches
	var fs []func() string
	for _, x := range []Animal{Dog{"a"}, &Fish{"b"}, Dog{"c"}} {
		switch v := x.(type) {
		case Dog:
			name := v.name
			fs = append(fs, func() string { return "closure " + name })
		case Animal:
			switch w := v.(type) {
			case *Fish:
				s := "nested " + w.name + " " + v.Sound()
				fs = append(fs, func() string { return s })
			}
		}
	}
	for _, f := range fs {
		fmt.Println(f())
	}
	// host interfaces and values
	var r io.Reader = strings.NewReader("abc")
	switch v := r.(type) {
	case io.Writer:
		fmt.Println("rw writer", v != nil)
	case io.ByteReader:
		c, _ := v.ReadByte()
		fmt.Println("bytereader", string(c))
	}
	switch v := r.(type) {
	case *strings.Reader:
		fmt.Println("*strings.Reader", v.Len())
	case io.Reader:
		fmt.Println("io.Reader")
	}
	switch r.(type) {
	case interface{ Len() int }:
		fmt.Println("has Len")
	default:
		fmt.Println("no Len")
	}
	switch v := r.(type) {
	case interface{ Size() int64 }:
		fmt.Println("has Size", v.Size())
	default:
		fmt.Println("no Size")
	}
	switch r.(type) {
	case interface{ Missing() }:
		fmt.Println("has Missing")
	case nil:
		fmt.Println("nil")
	default:
		fmt.Println("no Missing")
	}
	var w io.Writer
	switch w.(type) {
	case nil:
		fmt.Println("w nil")
	default:
		fmt.Println("w not nil")
	}
	// break and goto-free control flow in clauses
	for i, x := range []interface{}{1, "a", 2.5, Dog{"z"}} {
		switch v := x.(type) {
		case int:
			if v > 0 {
				break
			}
			fmt.Println("not reached")
		case string, float64:
			fmt.Println(i, "str/float", v)
			continue
		case Animal:
			fmt.Println(i, "animal", v.Sound())
		}
		fmt.Println(i, "after")
	}
}
