package main

import (
	"bytes"
	"fmt"
	"io"
	"os"
	"strconv"
	"strings"
)

type MyInt int

func (m MyInt) Double() int { return int(m) * 2 }

type Plain int
type Str string
type Pt struct{ x, y int }
type Q struct{ x, y int } // same layout as Pt, no methods

type Shape interface {
	Area() int
	Name() string
}
type Namer interface{ Name() string }
type Sq struct{ s int }

func (s Sq) Area() int    { return s.s * s.s }
func (s Sq) Name() string { return "sq" }

type Circ struct{ r int }

func (c *Circ) Area() int    { return 3 * c.r * c.r }
func (c *Circ) Name() string { return "circ" }

type Emb struct {
	Sq
	tag string
}
type EmbP struct {
	*Circ
}

func kind(x interface{}) string {
	switch v := x.(type) {
	case nil:
		return "nil"
	case bool:
		return "bool " + strconv.FormatBool(v)
	case int:
		return "int " + strconv.Itoa(v)
	case int64:
		return "int64 " + strconv.FormatInt(v, 10)
	case uint8:
		return "uint8 " + strconv.Itoa(int(v))
	case float64:
		return "float64 " + strconv.FormatFloat(v, 'g', -1, 64)
	case string:
		return "string " + v
	case MyInt:
		return "MyInt " + strconv.Itoa(v.Double())
	case Plain:
		return "Plain " + strconv.Itoa(int(v))
	case Str:
		return "Str " + string(v)
	case []int:
		return "[]int " + strconv.Itoa(len(v))
	case []string:
		return "[]string " + strings.Join(v, ",")
	case map[string]int:
		return "map " + strconv.Itoa(len(v))
	case [2]int:
		return "array " + strconv.Itoa(v[1])
	case *int:
		return "*int " + strconv.Itoa(*v)
	case Pt:
		return "Pt " + strconv.Itoa(v.x)
	case *Pt:
		return "*Pt " + strconv.FormatBool(v == nil)
	case func() int:
		return "func " + strconv.Itoa(v())
	case chan int:
		return "chan " + strconv.Itoa(cap(v))
	case Shape:
		return "Shape " + v.Name() + " " + strconv.Itoa(v.Area())
	case error:
		return "error " + v.Error()
	case *bytes.Buffer:
		return "*bytes.Buffer " + v.String()
	case io.Reader:
		return "io.Reader"
	case fmt.Stringer:
		return "Stringer " + v.String()
	case struct{}:
		return "struct{}"
	case interface{ Double() int }:
		return "Doubler"
	}
	return "other"
}

func kindNB(x interface{}) string {
	switch x.(type) {
	case nil:
		return "nil"
	case bool, int, int64, uint8, float64:
		return "number-ish"
	case string, Str:
		return "stringish"
	case MyInt:
		return "MyInt"
	case Plain:
		return "Plain"
	case []int, []string, map[string]int, [2]int:
		return "container"
	case *int, *Pt:
		return "pointer"
	case Pt:
		return "Pt"
	case Shape:
		return "Shape"
	case error, fmt.Stringer:
		return "error/Stringer"
	case io.Reader:
		return "io.Reader"
	}
	return "other"
}

func shape(tag string, s Shape) {
	switch v := s.(type) {
	case nil:
		fmt.Println(tag, "nil shape")
	case Sq:
		fmt.Println(tag, "Sq", v.s)
	case *Sq:
		fmt.Println(tag, "*Sq", v.s)
	case *Circ:
		fmt.Println(tag, "*Circ", v.r)
	case Emb:
		fmt.Println(tag, "Emb", v.tag, v.s)
	case interface{ Extra() }:
		fmt.Println(tag, "Extra")
	case Namer:
		fmt.Println(tag, "Namer", v.Name())
	default:
		fmt.Println(tag, "default")
	}
	switch s.(type) {
	case Sq, *Sq:
		fmt.Println(tag, "nb Sq/*Sq")
	case fmt.Stringer:
		fmt.Println(tag, "nb Stringer")
	case Namer:
		fmt.Println(tag, "nb Namer")
	case nil:
		fmt.Println(tag, "nb nil")
	}
	switch v := s.(type) {
	case Sq, *Circ:
		fmt.Println(tag, "multi", v.Name(), v.Area())
	case nil, Emb:
		fmt.Println(tag, "multi nil/Emb", v == nil)
	default:
		fmt.Println(tag, "multi default", v.Name())
	}
}

func main() {
	n := 5
	var nilp *Pt
	var nilshape Shape
	var nilerr error
	ch := make(chan int, 3)
	vals := []interface{}{
		nil, true, 1, int64(2), uint8(3), 1.5, "s", MyInt(4), Plain(5), Str("z"),
		[]int{1, 2}, []string{"a", "b"}, map[string]int{"a": 1}, [2]int{7, 8}, &n,
		Pt{1, 2}, &Pt{3, 4}, Q{1, 2}, &Q{1, 2}, nilp, func() int { return 9 }, ch,
		Sq{2}, &Sq{3}, Circ{1}, &Circ{2}, Emb{Sq{4}, "e"}, &Emb{Sq{5}, "f"}, EmbP{&Circ{1}},
		nilshape, nilerr, fmt.Errorf("boom"), &os.PathError{Op: "op", Path: "p", Err: os.ErrNotExist},
		bytes.NewBufferString("buf"), strings.NewReader("r"), struct{}{}, struct{ a int }{1},
		int32(1), uint(1), float32(1), complex(1, 2), 'r', []interface{}{1}, os.ErrNotExist,
	}
	for i, v := range vals {
		fmt.Println(i, kind(v), "|", kindNB(v))
	}
	shape("s0", nil)
	shape("s1", Sq{2})
	shape("s2", &Sq{3})
	shape("s3", &Circ{4})
	shape("s4", Emb{Sq{5}, "t"})
	shape("s5", &Emb{Sq{6}, "u"})
	shape("s6", EmbP{&Circ{7}})
	shape("s7", nilshape)
}
