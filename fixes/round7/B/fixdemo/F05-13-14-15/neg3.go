package main

import (
	"fmt"
	"time"
)

type Animal interface{ Sound() string }
type Dog struct{}

func (Dog) Sound() string { return "woof" }

type Node struct {
	next *Node
	val  interface{}
	kids []Animal
}

type Alias = Dog
type Any = interface{}
type MyErr = error

func kind(x interface{}) string {
	switch v := x.(type) {
	case []interface{}:
		return fmt.Sprint("[]interface{} ", len(v))
	case map[string]interface{}:
		return fmt.Sprint("map[string]interface{} ", len(v))
	case func(interface{}) error:
		return fmt.Sprint("func ", v(1))
	case chan error:
		return fmt.Sprint("chan error ", cap(v))
	case *[]int:
		return fmt.Sprint("*[]int ", len(*v))
	case []Animal:
		return fmt.Sprint("[]Animal ", v[0].Sound())
	case map[string]Animal:
		return fmt.Sprint("map Animal ", len(v))
	case Node:
		return fmt.Sprint("Node ", v.val)
	case *Node:
		return fmt.Sprint("*Node ", v.next == nil)
	case []Node:
		return fmt.Sprint("[]Node ", len(v))
	case [][]string:
		return fmt.Sprint("[][]string ", len(v))
	case time.Duration:
		return fmt.Sprint("Duration ", v.String())
	case time.Time:
		return fmt.Sprint("Time ", v.IsZero())
	case *time.Time:
		return fmt.Sprint("*Time ", v.IsZero())
	case Alias:
		return "Alias " + v.Sound()
	case struct{ a, b int }:
		return fmt.Sprint("anon struct ", v.a+v.b)
	case MyErr:
		return "MyErr " + v.Error()
	case Any:
		return "Any"
	}
	return "none"
}

func kindNB(x interface{}) string {
	switch x.(type) {
	case []interface{}, map[string]interface{}:
		return "generic container"
	case func(interface{}) error, chan error:
		return "func/chan"
	case *[]int, []Animal, map[string]Animal:
		return "misc"
	case Node, *Node, []Node:
		return "nodes"
	case time.Duration, time.Time, *time.Time:
		return "time"
	case struct{ a, b int }:
		return "anon"
	case Any:
		return "Any"
	}
	return "none"
}

func main() {
	d := Dog{}
	s := []int{1, 2, 3}
	var t time.Time
	vals := []interface{}{
		[]interface{}{1, "a"}, map[string]interface{}{"k": 1}, func(interface{}) error { return nil },
		make(chan error, 2), &s, []Animal{d}, map[string]Animal{"d": d}, Node{val: 5}, &Node{}, []Node{{}, {}},
		[][]string{{"a"}}, 3 * time.Second, t, &t, d, struct{ a, b int }{1, 2}, fmt.Errorf("x"), 12, nil,
		[]string{"z"}, struct{ a, c int }{1, 2}, int64(3), time.Month(2),
	}
	for i, v := range vals {
		fmt.Println(i, kind(v), "|", kindNB(v))
	}
	var e interface{} = d
	var a Animal = d
	fmt.Println("e", kind(e), "|", kindNB(e))
	fmt.Println("a", kind(a), "|", kindNB(a))
}
