module fixdemo

go 1.21
